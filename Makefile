PY=/venv/bin/python -B
.PHONY: setup extras
setup:
	$(PY) harness/names.py
	$(PY) harness/setup_check.py
extras:
	$(PY) harness/extras.py 4000
