PY=/venv/bin/python -B
.PHONY: setup sany selftest
setup:
	$(PY) harness/names.py
	$(PY) harness/setup_check.py
