CONSTANT Threads = {1}
CONSTANT MaxCalls = 99
CONSTANT AsCodedReinit = FALSE
CONSTANT AllowEdits = TRUE
CONSTANT CastInPlace = FALSE
CONSTANT Depth = 8
CONSTANT MaxBeh = 8000
SPECIFICATION GSpec
INVARIANT Emit
INVARIANT Budget
CHECK_DEADLOCK FALSE
