CONSTANT MaxLen = 1
CONSTANT WithMods = TRUE
CONSTANT Shard = 0
CONSTANT NShards = 1
INIT Init
NEXT Next
INVARIANT TruthfulInv
INVARIANT ModLaws
CHECK_DEADLOCK FALSE
