INIT Init
NEXT Next
INVARIANT Check
CHECK_DEADLOCK FALSE
