CONSTANT MaxLen = 7
INIT Init
NEXT Next
INVARIANT MachineIsBalanced
INVARIANT RequiredLaws
CHECK_DEADLOCK FALSE
