------------------------------- MODULE MC_Tree -------------------------------
(* Leg A for C20: the HTML stack machine accepts exactly the balanced tag sequences (all sequences of <= MaxLen
   events over two tags), and the "required" rule separates required_keys under and-only combinations from
   everything else on a universe of conditions (non-vacuity). *)
EXTENDS Tree, TLC
CONSTANT MaxLen
Ev == {[t |-> "open", tag |-> "div"], [t |-> "close", tag |-> "div"], [t |-> "open", tag |-> "p"], [t |-> "close", tag |-> "p"]}
VARIABLE evs
Init == evs \in UNION {[1..n -> Ev] : n \in 0..MaxLen}
Next == UNCHANGED evs
MachineIsBalanced == HtmlWellFormed(evs) = Balanced(evs)

Sa == StrV(<<97>>)  Sb == StrV(<<98>>)
Req(ks) == Leaf("value", "none", "required_keys", ks, <<>>)
All(ks) == Leaf("value", "none", "allowed_keys", ks, <<>>)
Ty == Leaf("value", "dtype", "equal_to", <<>>, KwValue(TypeV(TDict)))
RequiredLaws ==
  /\ RequiredKey(Req(<<Sa>>), Sa) /\ ~RequiredKey(Req(<<Sa>>), Sb)
  /\ RequiredKey(Bin("and", Ty, Bin("and", All(<<Sa, Sb>>), Req(<<Sb>>))), Sb)
  /\ ~RequiredKey(Bin("and", Ty, Bin("and", All(<<Sa, Sb>>), Req(<<Sb>>))), Sa)
  /\ MentionedKey(Bin("and", Ty, Bin("and", All(<<Sa, Sb>>), Req(<<Sb>>))), Sa)
  /\ ~RequiredKey(Bin("or", Ty, Req(<<Sa>>)), Sa)
  /\ ~RequiredKey(Bin("and", Ty, Bin("xor", All(<<Sa>>), Req(<<Sa>>))), Sa)
  /\ ~RequiredKey(All(<<Sa>>), Sa)
=============================================================================
