------------------------------ MODULE Equality ------------------------------
(***************************************************************************)
(* Equality of valida objects at term level (C14): conditions (leaf: exact *)
(* class, callable name, arguments under TYPED python ==; combinations:    *)
(* commutative, not associative), parts (kind, all three conditions,       *)
(* label), paths, rules (cast included), schemas - and the behaviour of a  *)
(* term on a document, against which "equal implies identical behaviour"   *)
(* is stated.  MolEqIgnoresKeyIndex = TRUE is the as-coded deviation.      *)
(***************************************************************************)
EXTENDS Schema

\* Equality of stored arguments: python == AND the same types throughout (an int, the equal float and the equal bool
\* are not interchangeable arguments: range() refuses a float bound, so in_range(1, 5) and in_range(1.0, 5) differ in
\* behaviour).  Mapping arguments are matched by key equality (key types are immaterial to every callable); data-path
\* arguments compare structurally (Build.tla / PathEq).  `loose` = TRUE is python == alone - the behaviour before
\* the repair "fix: conditions with equal but differently typed arguments are not equal" (negative configuration).
RECURSIVE EqTyped(_, _)
EqTyped(a, b) ==
  IF a.k \in {"dpath", "rdpath"} /\ b.k \in {"dpath", "rdpath"} THEN TRUE
  ELSE /\ a.k = b.k
       /\ CASE a.k \in {"list", "tuple"} -> Len(a.xs) = Len(b.xs) /\ \A i \in 1..Len(a.xs) : EqTyped(a.xs[i], b.xs[i])
            [] a.k = "map" -> Len(a.xs) = Len(b.xs) /\
                              \A i \in 1..Len(a.xs) : \E j \in 1..Len(b.xs) :
                                  PyEq(a.xs[i][1], b.xs[j][1]) /\ EqTyped(a.xs[i][2], b.xs[j][2])
            [] OTHER -> PyEq(a, b)
PyEqArgG(a, b, loose) == IF a.k \in {"dpath", "rdpath"} /\ b.k \in {"dpath", "rdpath"} THEN TRUE
                         ELSE IF loose THEN PyEq(a, b) ELSE EqTyped(a, b)
PyEqArg(a, b) == PyEqArgG(a, b, FALSE)
KwEqG(a, b, loose) == /\ Len(a) = Len(b)
                      /\ \A i \in 1..Len(a) : \E j \in 1..Len(b) : a[i].nc = b[j].nc /\ PyEqArgG(a[i].v, b[j].v, loose)
ArgsEqG(a, b, loose) == Len(a) = Len(b) /\ \A i \in 1..Len(a) : PyEqArgG(a[i], b[i], loose)
KwEq(a, b) == KwEqG(a, b, FALSE)
ArgsEq(a, b) == ArgsEqG(a, b, FALSE)

RECURSIVE TermEqG(_, _, _)
TermEqG(a, b, loose) ==
  CASE a.t = "null" -> b.t = "null"
    [] a.t = "leaf" -> /\ b.t = "leaf" /\ a.datum = b.datum /\ a.pre = b.pre /\ a.fn = b.fn
                       /\ ArgsEqG(a.args, b.args, loose) /\ KwEqG(a.kw, b.kw, loose)
    [] OTHER -> /\ b.t = a.t
                /\ \/ TermEqG(a.l, b.l, loose) /\ TermEqG(a.r, b.r, loose)
                   \/ TermEqG(a.l, b.r, loose) /\ TermEqG(a.r, b.l, loose)
TermEq(a, b) == TermEqG(a, b, FALSE)
PartEq(p, q, MolEqIgnoresKeyIndex) ==
  /\ p.pk = q.pk /\ TermEq(p.cond, q.cond) /\ PyEq(p.label, q.label)
  /\ (MolEqIgnoresKeyIndex \/ (TermEq(p.lcond, q.lcond) /\ TermEq(p.mcond, q.mcond)))
PathEq(p, q, sw) == /\ Len(p.parts) = Len(q.parts) /\ \A j \in 1..Len(p.parts) : PartEq(p.parts[j], q.parts[j], sw)
                    /\ p.concrete = q.concrete /\ p.dt = q.dt /\ p.mt = q.mt
RuleEq(r, s, sw) == PathEq(r.path, s.path, sw) /\ TermEq(r.cond, s.cond) /\ r.cast = s.cast

(***************************************************************************)
(* Behaviour of an object of `kind` on a document: a comparable record;    *)
(* u = unconstrained on this document.                                     *)
(***************************************************************************)
Behaves(kind, x, d) ==
  CASE kind = "cond" -> [u |-> \E i \in 1..Len(Filter(x, d)) : Filter(x, d)[i] = "U", r |-> Filter(x, d)]
    [] kind = "part" -> [u |-> SelUnconstrained(x, d), r |-> ChildOutcomes(x, d)]
    [] kind = "path" -> LET g == GetData(x, d, TRUE) IN [u |-> g.status = "U", r |-> g]
    [] kind = "schema" -> LET v == Validate(x, d, Design) IN [u |-> v.u, r |-> <<v.valid, v.nfail, v.ntested>>]
    [] OTHER -> LET t == RuleTest(x, d, d, TRUE) IN [u |-> t.u, r |-> <<t.tested, t.valid, t.fails>>]
SameBehaviour(kind, x, y, d) ==
  LET a == Behaves(kind, x, d)  b == Behaves(kind, y, d) IN a.u \/ b.u \/ a.r = b.r
=============================================================================
