------------------------------ MODULE Equality ------------------------------
(***************************************************************************)
(* Equality of valida objects at term level (C14): conditions (leaf: exact *)
(* class, callable name, arguments under python ==; combinations:          *)
(* commutative, not associative), parts (kind, all three conditions,       *)
(* label), paths, rules (cast included), schemas - and the behaviour of a  *)
(* term on a document, against which "equal implies identical behaviour"   *)
(* is stated.  MolEqIgnoresKeyIndex = TRUE is the as-coded deviation.      *)
(***************************************************************************)
EXTENDS Schema

RECURSIVE PyEqArg(_, _)
\* python == on stored arguments (paths compare structurally)
PyEqArg(a, b) == IF a.k \in {"dpath", "rdpath"} /\ b.k \in {"dpath", "rdpath"} THEN TRUE ELSE PyEq(a, b)
KwEq(a, b) == /\ Len(a) = Len(b)
              /\ \A i \in 1..Len(a) : \E j \in 1..Len(b) : a[i].nc = b[j].nc /\ PyEqArg(a[i].v, b[j].v)
ArgsEq(a, b) == Len(a) = Len(b) /\ \A i \in 1..Len(a) : PyEqArg(a[i], b[i])

RECURSIVE TermEq(_, _)
TermEq(a, b) ==
  CASE a.t = "null" -> b.t = "null"
    [] a.t = "leaf" -> /\ b.t = "leaf" /\ a.datum = b.datum /\ a.pre = b.pre /\ a.fn = b.fn
                       /\ ArgsEq(a.args, b.args) /\ KwEq(a.kw, b.kw)
    [] OTHER -> /\ b.t = a.t
                /\ \/ TermEq(a.l, b.l) /\ TermEq(a.r, b.r)
                   \/ TermEq(a.l, b.r) /\ TermEq(a.r, b.l)
PartEq(p, q, MolEqIgnoresKeyIndex) ==
  /\ p.pk = q.pk /\ TermEq(p.cond, q.cond) /\ PyEq(p.label, q.label)
  /\ (MolEqIgnoresKeyIndex \/ (TermEq(p.lcond, q.lcond) /\ TermEq(p.mcond, q.mcond)))
PathEq(p, q, sw) == /\ Len(p.parts) = Len(q.parts) /\ \A j \in 1..Len(p.parts) : PartEq(p.parts[j], q.parts[j], sw)
                    /\ p.concrete = q.concrete /\ p.dt = q.dt /\ p.mt = q.mt
RuleEq(r, s, sw) == PathEq(r.path, s.path, sw) /\ TermEq(r.cond, s.cond) /\ r.cast = s.cast

(***************************************************************************)
(* Behaviour of an object of `kind` on a document: a comparable record;    *)
(* u = unconstrained on this document.                                     *)
(***************************************************************************)
Behaves(kind, x, d) ==
  CASE kind = "cond" -> [u |-> \E i \in 1..Len(Filter(x, d)) : Filter(x, d)[i] = "U", r |-> Filter(x, d)]
    [] kind = "part" -> [u |-> SelUnconstrained(x, d), r |-> ChildOutcomes(x, d)]
    [] kind = "path" -> LET g == GetData(x, d, TRUE) IN [u |-> g.status = "U", r |-> g]
    [] kind = "schema" -> LET v == Validate(x, d, Design) IN [u |-> v.u, r |-> <<v.valid, v.nfail, v.ntested>>]
    [] OTHER -> LET t == RuleTest(x, d, d, TRUE) IN [u |-> t.u, r |-> <<t.tested, t.valid, t.fails>>]
SameBehaviour(kind, x, y, d) ==
  LET a == Behaves(kind, x, d)  b == Behaves(kind, y, d) IN a.u \/ b.u \/ a.r = b.r
=============================================================================
