----------------------------- MODULE Trace_Path -----------------------------
(***************************************************************************)
(* Leg B acceptor for C03 / C04: recorded path constructions and           *)
(* resolutions of the real valida, judged against Path.tla / Build.tla.    *)
(*  op "get": entry, rparts, dt, mt, proj, doc, outcome, res (without      *)
(*            paths), outcomep, resp (with paths)                          *)
(*  op "multi_concrete": rparts, mt, outcome                               *)
(***************************************************************************)
EXTENDS Build, Json, IOUtils, TLC

Events == ndJsonDeserialize(IOEnv.TRACE_FILE)
VARIABLE i
Init == i \in 1..Len(Events)
Next == UNCHANGED i

RecipeOk(e) == \A j \in 1..Len(e.rparts) : PartRecipeOk(e.rparts[j])

\* the (value, path) pairs of an answer with paths
Pairs(resp) == CASE resp.k = "list" -> resp.xs [] resp.k = "tuple" -> <<resp>> [] OTHER -> <<>>
IsPair(x) == x.k = "tuple" /\ Len(x.xs) = 2 /\ x.xs[2].k = "tuple"
Values(res) == CASE res.k = "list" -> res.xs [] res.k = "none" -> <<>> [] OTHER -> <<res>>

GetClauses(e) ==
  LET P == MkPathT(e.rparts, e.dt, e.mt)
      d == e.doc
      x == GetData(P, d, FALSE)
      xp == GetData(P, d, TRUE)
      ok == e.outcome = "ok" /\ e.outcomep = "ok"
      constrained == x.status # "U"
      ps == Pairs(e.resp)
      shaped == \A j \in 1..Len(ps) : IsPair(ps[j])
      single == P.concrete \/ P.mt \in {"first", "last", "single"} \/ P.parts = <<>>
  IN IF ~RecipeOk(e) THEN << <<"Skip", TRUE>> >> ELSE
     << <<"PathConstruction", PathSame(e.proj, P)>>,
        <<"ModifierReturnsCopy", e.mods_pure>>,
        <<"NeverRaises", (x.status = "ok") => ok>>,
        <<"SingleRefusesSeveral", (x.status = "raised:ValueError") =>
              (e.outcome = "raised:ValueError" /\ e.outcomep = "raised:ValueError")>>,
        <<"ResultIsWalk", (x.status = "ok" /\ ok) => Same(e.res, x.v)>>,
        <<"ResultWithPathsIsWalk", (x.status = "ok" /\ ok) => Same(e.resp, xp.v)>>,
        <<"PairsShaped", (x.status = "ok" /\ ok) => shaped>>,
        <<"Truthful", (x.status = "ok" /\ ok /\ shaped) =>
              \A j \in 1..Len(ps) :
                 LET ix == Index(d, ps[j].xs[2].xs) IN
                 ix.ok /\ Same(DatumMod(P.dt, ix.v), ps[j].xs[1])>>,
        <<"PathsDistinct", (x.status = "ok" /\ ok /\ shaped) =>
              \A j, m \in 1..Len(ps) : j # m =>
                 ~(Len(ps[j].xs[2].xs) = Len(ps[m].xs[2].xs) /\
                   \A q \in 1..Len(ps[j].xs[2].xs) : Same(ps[j].xs[2].xs[q], ps[m].xs[2].xs[q]))>>,
        <<"WithoutPathsSameValues", (x.status = "ok" /\ ok /\ shaped /\ ~single) =>
              /\ e.res.k = "list" /\ Len(e.res.xs) = Len(ps)
              /\ \A j \in 1..Len(ps) : Same(e.res.xs[j], ps[j].xs[1])>>,
        <<"WithoutPathsSameValue1", (x.status = "ok" /\ ok /\ shaped /\ single /\ Len(ps) = 1) =>
              Same(e.res, ps[1].xs[1])>> >>

MultiConcreteClauses(e) ==
  << <<"MultiplicityRefusedOnConcrete", e.outcome = "raised:ValueError">>,
     \* ... by the method, the constructor argument and assignment to the property alike, and the path the request was
     \* made on is afterwards exactly the path it was (same projection, same answers)
     <<"RefusedRequestLeavesThePathAsItWas", e.refusal_clean>> >>

\* a get_data call recorded from the repository's own tests: the path is known by its projection only
GetProjClauses(e) ==
  LET x == GetData(e.proj, e.doc, e.rp) IN
  << <<"NeverRaises", (x.status = "ok") => e.outcome = "ok">>,
     <<"SingleRefusesSeveral", (x.status = "raised:ValueError") => e.outcome = "raised:ValueError">>,
     <<"ResultIsWalk", (x.status = "ok" /\ e.outcome = "ok") => Same(e.res, x.v)>> >>

Clauses(e) == CASE e.op = "get" -> GetClauses(e)
                [] e.op = "get_proj" -> GetProjClauses(e)
                [] e.op = "multi_concrete" -> MultiConcreteClauses(e)

Check == LET e == Events[i]
             \* under C08 the same recorded calls are judged for being read-only only
             cl == IF IOEnv.VERIF_PROP = "C08"
                   THEN << <<"ReadOnly", e.writes = <<>> /\ e.unchanged>> >>
                   ELSE Clauses(e)
             bad == {j \in 1..Len(cl) : ~cl[j][2]}
         IN \/ bad = {}
            \/ LET j == CHOOSE j \in bad : \A m \in bad : j <= m
               IN PrintT(<<"MISMATCH", e.id, cl[j][1]>>) /\ FALSE
=============================================================================
