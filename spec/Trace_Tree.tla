----------------------------- MODULE Trace_Tree -----------------------------
(***************************************************************************)
(* Leg B acceptor for C20.                                                 *)
(*  op "tree": rules (projections: path, cond), from (index of the rule    *)
(*    whose path is the sub-tree root, 0 = whole tree), outcome, nodes     *)
(*    (flat form; per node: ri = rule it shows (0 = key-only node), parent,*)
(*    plen = length of its path, key = last path element, has_required,    *)
(*    required, pstr_prefix_ok = its parent's path string is its own minus *)
(*    the last element), nested_same (flat and nested forms have the same  *)
(*    nodes), cond_is_rule, doc_is_rule                                    *)
(*  op "html": outcome, evs (open / close events), texts_ok, escaped_ok,   *)
(*    token_ok                                                             *)
(***************************************************************************)
EXTENDS Tree, Grammar, Json, IOUtils, TLC
Events == ndJsonDeserialize(IOEnv.TRACE_FILE)
VARIABLE i
Init == i \in 1..Len(Events)
Next == UNCHANGED i

UnderRoot(e, r) == e.from = 0 \/
                   LET fp == e.rules[e.from].path.parts  rp == e.rules[r].path.parts IN
                   Len(rp) >= Len(fp) /\ \A j \in 1..Len(fp) : PartSame(rp[j], fp[j])
TreeClauses(e) ==
  LET ok == e.outcome = "ok"  ns == e.nodes IN
  << <<"TreeProducedWithoutError", ok>>,
     <<"EachRuleExactlyOnce", ok => \A r \in 1..Len(e.rules) :
           Cardinality({j \in 1..Len(ns) : ns[j].ri = r}) = (IF UnderRoot(e, r) THEN 1 ELSE 0)>>,
     <<"RuleNodeCarriesConditionAndDoc", ok => \A j \in 1..Len(ns) : ns[j].ri > 0 => (ns[j].cond_is_rule /\ ns[j].doc_is_rule)>>,
     <<"ParentPrecedesAndIsPrefix", ok => \A j \in 1..Len(ns) :
           /\ ns[j].parent < j - 1 + 1 /\ ns[j].parent >= -1
           /\ (ns[j].parent = -1) = (ns[j].plen = ns[1].plen /\ j = 1)
           /\ ns[j].parent >= 0 => (ns[ns[j].parent + 1].plen = ns[j].plen - 1 /\ ns[j].pstr_prefix_ok)>>,
     <<"FlatAndNestedSameNodes", ok => e.nested_same>>,
     <<"TypeListsHoldEveryTypeLikeLeaf", ok => \A j \in 1..Len(ns) : ns[j].ri > 0 =>
           \* (at least: a node may also list what the paths of the rules below it imply about its container type)
           /\ ns[j].ntype >= TypeEntries(e.rules[ns[j].ri].cond, FALSE)
           /\ ns[j].nkeytype >= TypeEntries(e.rules[ns[j].ri].cond, TRUE)>>,
     \* a rule that came from a spec carries (and the tree shows: RuleNodeCarriesConditionAndDoc) its doc block as the
     \* grammar normalises it: description and examples as lists of stripped strings
     <<"RuleDocIsTheNormalisedDocBlock", \A r \in 1..Len(e.docspecs) : e.docspecs[r].has =>
           LET n == NormDoc(e.docspecs[r].spec) IN n.st = "ok" => SameU(e.docspecs[r].parsed, n.v)>>,
     \* a node that shows a rule is filed under that rule's path in its plain form (DataPath.simplify: a primitive
     \* wherever the part is what the primitive would be coerced to - whatever the key is: "", 0.0, ...)
     <<"NodePathIsTheSimplifiedRulePath", ok => \A j \in 1..Len(ns) : ns[j].ri > 0 =>
           \* (in a sub-tree the paths start at the last component of the sub-tree root's path)
           LET full == Simplify(e.rules[ns[j].ri].path)
               nfp == IF e.from = 0 THEN 0 ELSE Len(e.rules[e.from].path.parts)
               drop == IF nfp = 0 THEN 0 ELSE nfp - 1
               sp == SubSeq(full, drop + 1, Len(full)) IN
           /\ Len(ns[j].path) = Len(sp)
           /\ \A q \in 1..Len(sp) : ns[j].path[q].prim = sp[q].prim /\ (sp[q].prim => Same(ns[j].path[q].v, sp[q].v))>>,
     <<"RequiredIffRequiredKeysNamesIt", ok => \A j \in 1..Len(ns) :
           (ns[j].parent >= 0 /\ ns[ns[j].parent + 1].ri > 0 /\ ns[j].key.k \in {"str", "int"}) =>
              LET pc == e.rules[ns[ns[j].parent + 1].ri].cond IN
              /\ RequiredKey(pc, ns[j].key) => (ns[j].has_required /\ ns[j].required)
              /\ ~RequiredKey(pc, ns[j].key) => ~(ns[j].has_required /\ ns[j].required)>> >>

HtmlClauses(e) ==
  LET ok == e.outcome = "ok" IN
  << <<"HtmlProducedWithoutError", ok>>,
     <<"TokenisesCleanly", ok => e.token_ok>>,
     <<"EveryTagClosedInOrder", (ok /\ e.token_ok) => HtmlWellFormed(e.evs)>>,
     <<"SchemaTextShown", (ok /\ e.token_ok) => e.texts_ok>>,
     <<"SchemaTextOnlyEscaped", (ok /\ e.token_ok) => e.escaped_ok>> >>
Clauses(e) == CASE e.op = "tree" -> TreeClauses(e) [] e.op = "html" -> HtmlClauses(e)
\* the type lists of a node are named by no listed property (C20 speaks of rules, parents, forms, required flags and the
\* HTML): that clause is judged only by `make extras` (VERIF_PROP = "EXTRA")
Owned(name) == (name = "TypeListsHoldEveryTypeLikeLeaf") <=> (IOEnv.VERIF_PROP = "EXTRA")
Check == LET e == Events[i]
             cl == Clauses(e)
             bad == {j \in 1..Len(cl) : Owned(cl[j][1]) /\ ~cl[j][2]}
         IN \/ bad = {}
            \/ LET j == CHOOSE j \in bad : \A m \in bad : j <= m
               IN PrintT(<<"MISMATCH", e.id, cl[j][1]>>) /\ FALSE
=============================================================================
