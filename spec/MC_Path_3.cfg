CONSTANT MaxLen = 3
CONSTANT WithMods = FALSE
CONSTANT Shard = 0
CONSTANT NShards = 1
INIT Init
NEXT Next
INVARIANT MechEqualsWalk
INVARIANT TruthfulInv
INVARIANT DistinctInv
INVARIANT ConcreteAtMostOne
INVARIANT DocumentOrder
CHECK_DEADLOCK FALSE
