--------------------------- MODULE Trace_RoundTrip ---------------------------
(***************************************************************************)
(* Leg B acceptor for C11, C12, C13: recorded serialisations of the real   *)
(* valida (to_json_like / to_part_specs), their JSON text round trip and   *)
(* the rebuilt objects, judged against Grammar.tla / Unparse.tla.          *)
(*  common fields: id, op, outcome (of serialising), js, json_ok,          *)
(*    outcome_rb (of rebuilding), eq, eq_rev, js2_ok, js2, behaves_same    *)
(*  rt_cond : rcond (recipe), proj_rb                                      *)
(*  rt_path : rparts, from_specs, ppath_rb, probes                         *)
(*  rt_rule : rule (recipe), prule_rb     rt_schema: rules, prules_rb      *)
(***************************************************************************)
EXTENDS Unparse, Json, IOUtils, TLC

Events == ndJsonDeserialize(IOEnv.TRACE_FILE)
VARIABLE i
Init == i \in 1..Len(Events)
Next == UNCHANGED i

RuleOfR(r) == RuleT(MkPathT(r.rparts, r.dt, r.mt), NormT(r.rcond), r.cast)
RuleSame(p, n) == PathSame(p.path, n.path) /\ TermSame(p.cond, n.cond) /\ p.cast = n.cast
SelSame(a, b) == Len(a) = Len(b) /\ \A j \in 1..Len(a) : Same(a[j][1], b[j][1]) /\ Len(a[j][2]) = Len(b[j][2])
                                  /\ \A q \in 1..Len(a[j][2]) : Same(a[j][2][q], b[j][2][q])

CondClauses(e) ==
  LET t == NormT(e.rcond)  ok == e.outcome = "ok"  r == ParseCond(e.js) IN
  IF ~StoreOk(e.rcond) \/ MixErr(e.rcond) THEN << <<"Skip", TRUE>> >> ELSE
  << <<"SerialisationSucceeds", ok>>,
     <<"PureJson", ok => (IsJson(e.js) /\ e.json_ok)>>,
     <<"SerialisedSpecMeansTheCondition", ok => (r.st = "ok" /\ TermSame(r.t, t))>>,
     <<"RebuildSucceeds", (ok /\ e.json_ok) => e.outcome_rb = "ok">>,
     <<"RebuiltIsEqual", (ok /\ e.json_ok /\ e.outcome_rb = "ok") => (e.eq /\ e.eq_rev /\ TermSame(e.proj_rb, t))>>,
     <<"RebuiltFiltersIdentically", (ok /\ e.json_ok /\ e.outcome_rb = "ok") => e.behaves_same>>,
     <<"SerialisationIsFixedPoint", (ok /\ e.json_ok /\ e.outcome_rb = "ok") => (e.js2_ok /\ SameU(e.js2, e.js))>> >>

PathClauses(e) ==
  LET P == MkPathT(e.rparts, "none", "none")  ok == e.outcome = "ok" IN
  IF ~(\A j \in 1..Len(e.rparts) : PartRecipeOk(e.rparts[j])) THEN << <<"Skip", TRUE>> >> ELSE
  IF ~ok THEN << <<"RefusalIsAllowed", TRUE>> >>          \* "or raises"
  ELSE LET r == IF e.js.k = "list" THEN ParsePathParts(e.js.xs) ELSE [st |-> "err", t |-> P] IN
  << <<"PureJson", IsJson(e.js) /\ e.json_ok>>,
     <<"SpecsParse", r.st = "ok" /\ e.outcome_rb = "ok">>,
     <<"SpecsSelectSameNodes", r.st = "ok" =>
          \A d \in 1..Len(e.probes) :
             (WalkU(e.probes[d], P.parts) \/ WalkU(e.probes[d], r.t.parts))
             \/ SelSame(ResolveDecl(r.t.parts, e.probes[d]), ResolveDecl(P.parts, e.probes[d]))>>,
     <<"RebuiltSelectsSameNodes", e.outcome_rb = "ok" => e.behaves_same>>,
     <<"EqualIfBuiltFromSpecs", (e.outcome_rb = "ok" /\ e.from_specs) => (e.eq /\ e.eq_rev)>> >>

RuleClauses(e) ==
  LET t == RuleOfR(e.rule)  ok == e.outcome = "ok"  r == ParseRule(e.js) IN
  << <<"SerialisationSucceeds", ok>>,
     <<"PureJson", ok => (IsJson(e.js) /\ e.json_ok)>>,
     <<"SerialisedSpecMeansTheRule", ok => (r.st = "ok" /\ RuleSame(r.t, t))>>,
     <<"RebuildSucceeds", (ok /\ e.json_ok) => e.outcome_rb = "ok">>,
     <<"RebuiltIsEqual", (ok /\ e.json_ok /\ e.outcome_rb = "ok") => (e.eq /\ e.eq_rev /\ RuleSame(e.prule_rb, t))>>,
     <<"RebuiltValidatesIdentically", (ok /\ e.json_ok /\ e.outcome_rb = "ok") => e.behaves_same>> >>

SchemaClauses(e) ==
  LET ts == [j \in 1..Len(e.rules) |-> RuleOfR(e.rules[j])]
      o == StableOrder(ts)
      ok == e.outcome = "ok"
      r == IF e.js.k = "list" THEN ParseRules(e.js.xs) ELSE [st |-> "err", t |-> <<>>, docs |-> <<>>]
  IN
  << <<"SerialisationSucceeds", ok>>,
     <<"KeywordFormGivesTheSameJson", ok => e.kw_same>>,
     <<"UnaffectedByAdditionsToAnotherHolder", ok => e.snapshot_ok>>,
     <<"PureJson", ok => (IsJson(e.js) /\ e.json_ok)>>,
     <<"SerialisedSpecMeansTheSchema", ok => (r.st = "ok" /\ Len(r.t) = Len(o) /\ \A j \in 1..Len(o) : RuleSame(r.t[j], ts[o[j]]))>>,
     <<"RebuildSucceeds", (ok /\ e.json_ok) => e.outcome_rb = "ok">>,
     <<"RebuiltIsEqual", (ok /\ e.json_ok /\ e.outcome_rb = "ok") =>
          (e.eq /\ e.eq_rev /\ Len(e.prules_rb) = Len(o) /\ \A j \in 1..Len(o) : RuleSame(e.prules_rb[j], ts[o[j]]))>>,
     <<"RebuiltValidatesIdentically", (ok /\ e.json_ok /\ e.outcome_rb = "ok") => e.behaves_same>> >>

Clauses(e) == CASE e.op = "rt_cond" -> CondClauses(e) [] e.op = "rt_path" -> PathClauses(e)
                [] e.op = "rt_rule" -> RuleClauses(e) [] e.op = "rt_schema" -> SchemaClauses(e)

Check == LET e == Events[i]
             cl == Clauses(e)
             bad == {j \in 1..Len(cl) : ~cl[j][2]}
         IN \/ bad = {}
            \/ LET j == CHOOSE j \in bad : \A m \in bad : j <= m
               IN PrintT(<<"MISMATCH", e.id, cl[j][1]>>) /\ FALSE
=============================================================================
