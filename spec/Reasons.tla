------------------------------- MODULE Reasons -------------------------------
(***************************************************************************)
(* Beyond the listed properties: the truth table of a filtered condition   *)
(* and the exact failure reasons of an item (FilteredData*._get_truth_table*)
(* and FilteredDataLike.get_failure_by_index in valida/data.py).           *)
(*                                                                         *)
(* A truth table is the sequence of rows (leaves in evaluation order, each *)
(* combination after its two operands).  Each row carries, per item, the   *)
(* flags pre-processor error / callable error / callable false and the     *)
(* result.  For a combination row: ppe and ce are the disjunction of the   *)
(* operands' flags, cf = not result.  The reasons of a failing item are,   *)
(* for every row that is not an "and" / "or" row, the FIRST flag set among *)
(* (ppe, ce, cf): "pre" | "err" | "false".                                 *)
(***************************************************************************)
EXTENDS Rule

\* rows of tree c for the item (k, v): sequence of [name, ppe, ce, cf, res]
RECURSIVE Rows(_, _, _)
Rows(c, k, v) ==
  CASE c.t = "null" -> << [name |-> "leaf", ppe |-> FALSE, ce |-> FALSE, cf |-> FALSE, res |-> TRUE] >>
    [] c.t = "leaf" ->
         LET f == LeafFlags(c, IF c.datum = "value" THEN v ELSE k, TRUE) IN
         << [name |-> "leaf", ppe |-> f.ppe, ce |-> f.ce, cf |-> f.cf, res |-> FlagsResult(f)] >>
    [] OTHER ->
         LET a == Rows(c.l, k, v)  b == Rows(c.r, k, v)
             ra == a[Len(a)]  rb == b[Len(b)]
             res == CASE c.t = "and" -> ra.res /\ rb.res [] c.t = "or" -> ra.res \/ rb.res [] OTHER -> ra.res # rb.res
         IN a \o b \o << [name |-> c.t, ppe |-> ra.ppe \/ rb.ppe, ce |-> ra.ce \/ rb.ce, cf |-> ~res, res |-> res] >>
ReasonOf(row) == IF row.ppe THEN "pre" ELSE IF row.ce THEN "err" ELSE IF row.cf THEN "false" ELSE "none"
\* the reason kinds of an item, in row order
Reasons(c, k, v) ==
  LET rs == Rows(c, k, v)
      idx == SelectSeq([j \in 1..Len(rs) |-> j], LAMBDA j : rs[j].name \notin {"and", "or"} /\ ReasonOf(rs[j]) # "none")
  IN [q \in 1..Len(idx) |-> ReasonOf(rs[idx[q]])]
\* the result column of the truth table
ResultRows(c, k, v) == LET rs == Rows(c, k, v) IN [j \in 1..Len(rs) |-> rs[j].res]
=============================================================================
