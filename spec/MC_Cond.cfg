CONSTANT CatchAll = TRUE
INIT Init
NEXT Next
INVARIANT MechEqualsMeaning
INVARIANT NeverAborts
INVARIANT FlagsExclusive
CHECK_DEADLOCK FALSE
