----------------------------- MODULE Gen_ReadOnly -----------------------------
(***************************************************************************)
(* Leg C for C08: sequences of read calls sharing one schema and the       *)
(* caller's documents (one caller; the interleavings are covered by        *)
(* MC_ReadOnly), printed as JSON with the result the specification gives   *)
(* each call, to be replayed on shared real objects - sequentially and     *)
(* from several real threads.                                              *)
(***************************************************************************)
EXTENDS ReadOnly, Json
CONSTANTS Depth, MaxBeh
ASSUME TLCSet(1, 0)
VARIABLE hist
GInit == Init /\ hist = <<>>
GNext == /\ Len(hist) < Depth
         /\ Next
         /\ hist' = IF \E t \in Threads : pc[t] = "finish" /\ pc'[t] = "idle"
                    THEN Append(hist, [call |-> cur[1], res |-> res'[1]])
                    ELSE IF owner' # owner
                    THEN LET d == CHOOSE d \in 1..Len(Docs0) : owner'[d] # owner[d] IN
                         Append(hist, [call |-> <<"edit", 0, d>>, res |-> [kind |-> "edit", sel |-> <<owner'[d]>>]])
                    ELSE hist
GSpec == GInit /\ [][GNext]_<<vars, hist>>

ResView(r) ==
  IF r.kind \in {"validate", "ruletest"}
  THEN [kind |-> r.kind,
        tests |-> [j \in 1..Len(r.tests) |-> [valid |-> r.tests[j].valid, tested |-> r.tests[j].tested,
                                               fails |-> r.tests[j].fails, u |-> r.tests[j].u]],
        cast_data |-> r.cast_data, sel |-> <<>>]
  ELSE [kind |-> r.kind, tests |-> <<>>, cast_data |-> None, sel |-> r.sel]
Emit ==
  /\ (Len(hist) = 0 /\ pc[1] = "idle" /\ ncalls[1] = 0) =>
        PrintT(ToJson([kind |-> "pool", rules |-> Rules0, docs |-> Docs0, order |-> Order]))
  /\ (Len(hist) = Depth /\ pc[1] = "idle") =>
        /\ PrintT(ToJson([kind |-> "behaviour",
                          hist |-> [j \in 1..Len(hist) |-> [call |-> hist[j].call, res |-> ResView(hist[j].res)]]]))
        /\ TLCSet(1, TLCGet(1) + 1)
Budget == TLCGet(1) < MaxBeh
=============================================================================
