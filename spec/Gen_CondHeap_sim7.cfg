CONSTANT AsCodedReinit = FALSE
CONSTANT MolSlots = TRUE
CONSTANT MaxCells = 99
CONSTANT Depth = 7
CONSTANT Acts = {"Combine", "MkPart", "MkMol", "PartFilter"}
CONSTANT MaxBeh = 30000
SPECIFICATION GSpec
INVARIANT Emit
INVARIANT Budget
CHECK_DEADLOCK FALSE
