------------------------------- MODULE Schema -------------------------------
(***************************************************************************)
(* Schemas: stable sort of rules by path length, validation as a           *)
(* sequential process over a private copy (valida/schema.py ValidatedData, *)
(* valida/rules.py Rule.test), aggregates, add_schema.                     *)
(*                                                                         *)
(* Intended design of one rule step (rule k in sorted order):              *)
(*   no casts : judge on the caller's document                             *)
(*   casts    : select on the caller's document; every selected node whose *)
(*              type has a declared cast that succeeds is replaced in the  *)
(*              shared private copy, every other node is left as it is;    *)
(*              judge on the copy                                          *)
(* As-coded deviations (switches, all FALSE in shipped configurations):    *)
(*   WriteBackUncast : a node whose cast fails is written back with its    *)
(*                     ORIGINAL value (reverting an earlier rule's cast)   *)
(***************************************************************************)
EXTENDS Rule

\* order in which Schema(rules) applies the given rules: positions into `rules`
\* (insertion from the right keeps ties in the given order)
RECURSIVE InsLate(_, _, _)
InsLate(sorted, x, len) ==      \* insert x after every element with length <= len[x]
  IF sorted = <<>> THEN <<x>>
  ELSE IF len[Head(sorted)] <= len[x] THEN <<Head(sorted)>> \o InsLate(Tail(sorted), x, len)
  ELSE <<x>> \o sorted
RECURSIVE Build_(_, _, _, _)
Build_(acc, i, n, len) == IF i > n THEN acc ELSE Build_(InsLate(acc, i, len), i + 1, n, len)
StableOrder(rules) == Build_(<<>>, 1, Len(rules), [i \in 1..Len(rules) |-> Len(rules[i].path.parts)])

(***************************************************************************)
(* Validation process.  State of the fold: the private copy and the        *)
(* per-rule results, rule by rule in stable order.                         *)
(***************************************************************************)
CastStepCopy(rule, doc, copy, WriteBackUncast) ==
  IF ~WriteBackUncast THEN ApplyCasts(rule, doc, copy)
  ELSE LET R == Select(rule.path, doc) IN
       LET F[i \in 0..Len(R)] ==
             IF i = 0 THEN copy
             ELSE LET c1 == CastOne(rule.cast, R[i][1]) IN
                  IF R[i][2] = <<>> THEN F[i - 1] ELSE Put(F[i - 1], R[i][2], IF c1.ok THEN c1.v ELSE R[i][1])
       IN F[Len(R)]

RECURSIVE ValidateFold(_, _, _, _, _, _, _)
ValidateFold(rules, order, k, doc, copy, acc, sw) ==
  IF k > Len(order) THEN [tests |-> acc, cast_data |-> copy]
  ELSE LET rule == rules[order[k]] IN
       IF rule.cast = <<>>
       THEN ValidateFold(rules, order, k + 1, doc, copy,
                         Append(acc, [ri |-> order[k], t |-> RuleTest(rule, doc, doc, sw.nested)]), sw)
       ELSE LET copy2 == CastStepCopy(rule, doc, copy, sw.wbu) IN
            ValidateFold(rules, order, k + 1, doc, copy2,
                         Append(acc, [ri |-> order[k], t |-> RuleTest(rule, copy2, copy2, sw.nested)]), sw)

Design == [nested |-> TRUE, wbu |-> FALSE]
Validate(rules, doc, sw) ==
  LET order == StableOrder(rules)
      r == ValidateFold(rules, order, 1, doc, doc, <<>>, sw)
  IN [order |-> order, tests |-> r.tests, cast_data |-> r.cast_data,
      u |-> \E k \in 1..Len(r.tests) : r.tests[k].t.u,
      valid |-> \A k \in 1..Len(r.tests) : r.tests[k].t.valid,
      nfail |-> LET S[k \in 0..Len(r.tests)] == IF k = 0 THEN 0 ELSE S[k - 1] + Len(r.tests[k].t.fails) IN S[Len(r.tests)],
      ntested |-> Cardinality({k \in 1..Len(r.tests) : r.tests[k].t.tested})]

\* a cast rule that raises in the as-coded implementation (C07): for the negative configurations
CastRaises(rule, doc, CatchValueError, SetDatumAnyKey) ==
  LET R == Select(rule.path, doc) IN
  \/ \E i \in 1..Len(R) : LET c1 == CastOne(rule.cast, R[i][1]) IN c1.raised = "ValueError" /\ ~CatchValueError
  \/ (~SetDatumAnyKey /\ \E i \in 1..Len(R) : R[i][2] = <<>> \/ \E j \in 1..Len(R[i][2]) : R[i][2][j].k \in {"int", "bool"})
=============================================================================
