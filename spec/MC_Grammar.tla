------------------------------ MODULE MC_Grammar ------------------------------
(***************************************************************************)
(* Leg A for C09 / C11: on a TLA+-enumerated universe of DSL terms, every  *)
(* spelling of a term parses back to the term, serialisation is pure JSON, *)
(* parses back to the term and is a fixed point.  EscapePathKeys = FALSE   *)
(* is the as-coded deviation (literal mappings with path-like keys are not *)
(* escaped): the round trip must then fail.                                *)
(***************************************************************************)
EXTENDS Unparse, TLC
CONSTANTS EscapePathKeys, Shard, NShards

I(n) == IntV(n)
Sa == StrV(<<97>>)  Sb == StrV(<<98>>)
PathLit == MapV(<< <<StrV(PathCode), ListV(<<Sa>>)>> >>)            \* the literal mapping {"path": ["a"]}
PathLit2 == MapV(<< <<StrV(PathCode \o <<Dot>> \o C("length")), ListV(<<Sa, I(0)>>)>>, <<Sb, I(1)>> >>)
DP == V("dpath", 0, <<PathT(<<Coerce(Sa), Coerce(I(0))>>, TRUE, "none", "none")>>)
DPm == V("dpath", 0, <<PathT(<<Coerce(Sa), Part("list", Null, Null, Null, None)>>, FALSE, "length", "first")>>)
PathLit3 == MapV(<< <<StrV(PathCode), MapV(<< <<StrV(PathCode), I(1)>> >>)>> >>)     \* {"path": {"path": 1}}
PathLit4 == MapV(<< <<Sa, MapV(<< <<StrV(PathCode), ListV(<<I(1)>>)>> >>)>> >>)        \* {"a": {"path": [1]}}
PathLit5 == ListV(<<PathLit, MapV(<< <<Sb, PathLit>> >>)>>)                           \* [{"path": ["a"]}, {"b": {"path": ["a"]}}]
PathLit6 == MapV(<< <<Sb, I(1)>>, <<StrV(PathCode), ListV(<<Sa>>)>> >>)                \* {"b": 1, "path": ["a"]}
PathLit7 == MapV(<< <<Sa, MapV(<< <<Sb, I(1)>>, <<StrV(PathCode), ListV(<<I(1)>>)>> >>)>> >>)   \* {"a": {"b": 1, "path": [1]}}
Vals1 == <<PathLit6, PathLit7, I(1), Sa, V("float", 12, <<>>), BoolV(TRUE), None, ListV(<<I(1), Sa>>), MapV(<< <<Sa, I(1)>> >>),
           PathLit, PathLit2, PathLit3, PathLit4, PathLit5, DP, DPm, ListV(<<DP, I(7)>>), MapV(<< <<Sa, DPm>> >>)>>
Types1 == <<TypeV(TInt), TypeV(TStr), TypeV(TDict)>>
TypeLists == <<ListV(<<TypeV(TInt)>>), ListV(<<TypeV(TInt), TypeV(TStr)>>), ListV(<<TypeV(TBool), TypeV(TList), TypeV(TFloat)>>)>>
Keys1 == <<Sa, Sb, I(1)>>

ClassSeq == << <<"value", "none">>, <<"value", "length">>, <<"value", "dtype">>, <<"key", "none">>,
               <<"key", "length">>, <<"key", "dtype">>, <<"index", "none">> >>
FnSeq(cl) == IF cl[2] = "dtype" THEN <<"equal_to", "not_equal_to", "in_", "not_in">>
             ELSE SelectSeq(FnNames, LAMBDA f : f \in FnsOf(cl[1], cl[2]))
Pairs2(A, B_) == [k \in 1..(Len(A) * Len(B_)) |-> <<A[((k - 1) \div Len(B_)) + 1], B_[((k - 1) % Len(B_)) + 1]>>]
Mk(cl, fn, acts, akw) == LET st == Store(fn, acts, akw) IN Leaf(cl[1], cl[2], fn, st.args, st.kw)
KwA(v) == Kw("", <<97>>, v)
KwB(v) == Kw("", <<98>>, v)
LeavesOf(cl, fn) ==
  IF cl[2] = "dtype" THEN
       (IF fn \in {"in_", "not_in"} THEN [j \in 1..Len(TypeLists) |-> Mk(cl, fn, <<TypeLists[j]>>, <<>>)]
        ELSE [j \in 1..Len(Types1) |-> Mk(cl, fn, <<Types1[j]>>, <<>>)])
  ELSE CASE SigKind(fn) = "none" -> <<Mk(cl, fn, <<>>, <<>>)>>
         [] fn \in {"is_instance", "keys_is_instance"} ->
              <<Mk(cl, fn, <<TypeV(TInt)>>, <<>>), Mk(cl, fn, <<TypeV(TStr), TypeV(TDict)>>, <<>>)>>
         [] SigKind(fn) = "varpos" ->
              <<Mk(cl, fn, <<>>, <<>>), Mk(cl, fn, <<Sa>>, <<>>), Mk(cl, fn, <<Sa, I(1)>>, <<>>)>>
         [] SigKind(fn) = "varkw" ->
              <<Mk(cl, fn, <<>>, <<>>), Mk(cl, fn, <<>>, <<KwA(I(1))>>), Mk(cl, fn, <<>>, <<KwA(PathLit), KwB(Sa)>>)>>
         [] fn \in {"in_range", "not_in_range"} -> <<Mk(cl, fn, <<I(0), I(3)>>, <<>>), Mk(cl, fn, <<I(1), DPm>>, <<>>)>>
         [] fn = "equal_to_approx" -> <<Mk(cl, fn, <<I(1)>>, <<>>), Mk(cl, fn, <<V("float", 12, <<>>), V("float", 4, <<>>)>>, <<>>)>>
         [] Len(Params(fn)) = 2 -> <<Mk(cl, fn, <<I(1), ListV(<<Sa, Sb>>)>>, <<>>)>>
         [] fn \in {"keys_contain_at_least_one_of", "keys_contain_at_most_one_of"} ->
              <<Mk(cl, fn, <<ListV(<<Sa, Sb>>)>>, <<>>), Mk(cl, fn, <<ListV(<<>>)>>, <<>>)>>
         [] OTHER -> [j \in 1..Len(Vals1) |-> Mk(cl, fn, <<Vals1[j]>>, <<>>)]
LeafU == Flat([ci \in 1..Len(ClassSeq) |->
           Flat([fi \in 1..Len(FnSeq(ClassSeq[ci])) |-> LeavesOf(ClassSeq[ci], FnSeq(ClassSeq[ci])[fi])])])
\* combinations over a few leaves (value-kind with key-kind; never key with index)
Pick == <<LeafU[1], LeafU[Len(Vals1) + 3], LeafU[Len(LeafU) \div 2], Null>>
OpsSeq == <<"and", "or", "xor">>
Bin1 == Flat([oi \in 1..3 |-> [k \in 1..(Len(Pick) * Len(Pick)) |->
            BinN(OpsSeq[oi], Pairs2(Pick, Pick)[k][1], Pairs2(Pick, Pick)[k][2])]])
Bin2 == [k \in 1..Len(Bin1) |-> BinN(OpsSeq[(k % 3) + 1], Bin1[k], Bin1[((k * 7) % Len(Bin1)) + 1])]
TermU == LeafU \o Bin1 \o Bin2
VariantSeq == <<"canon", "upper", "title", "alias", "list">>

VARIABLES ti, vi
Init == ti \in {j \in 1..Len(TermU) : j % NShards = Shard} /\ vi \in 1..Len(VariantSeq)
Next == UNCHANGED <<ti, vi>>
T == TermU[ti]
MixOk == ~MixesKeyIndex(T)

\* C09: every spelling parses to the term
SpellingParses ==
  MixOk => LET r == ParseCond(Spell(T, VariantSeq[vi])) IN r.st = "ok" /\ TermSame(r.t, T)
\* C11: serialisation is JSON, parses back to an equal term, and is a fixed point
RoundTrip ==
  (MixOk /\ vi = 1) =>
     LET js == UnparseCond(T, EscapePathKeys)  r == ParseCond(js) IN
     /\ IsJson(js)
     /\ r.st = "ok" /\ TermSame(r.t, T)
     /\ Same(UnparseCond(r.t, EscapePathKeys), js)
=============================================================================
