------------------------------- MODULE DataApi -------------------------------
(***************************************************************************)
(* Beyond the listed properties: the container view `Data` and the algebra *)
(* of filter results (valida/data.py).                                     *)
(*                                                                         *)
(*   Data(d)            accepted iff d is a non-empty list or mapping      *)
(*   len / iter / [j]   number of children / keys (list: 0..n-1) in order  *)
(*                      / the j-th child VALUE (an index, also for maps)   *)
(*   fd1 & fd2, |, ^    (FilteredDataLike.__and__ ...) the item-wise       *)
(*                      combination of two results over the SAME Data      *)
(*                      object: exactly the last row of the truth table    *)
(*                      of the combined condition (Reasons.tla), so        *)
(*                      filtering commutes with combining;                 *)
(*                      two results over different Data objects: refused.  *)
(*   filter(pairs, data_has_paths) : the children are (value, path) pairs; *)
(*                      the result is that of the values, each item        *)
(*                      carrying its path.                                 *)
(***************************************************************************)
EXTENDS Reasons

DataOk(d) == d.k \in {"list", "map"} /\ Len(d.xs) > 0
DataLen(d) == Len(d.xs)
DataIter(d) == Keys(d)
DataItem(d, j) == Vals(d)[j + 1]            \* j is 0-based as in Python

BinT(op, a, b) == [t |-> op, l |-> a, r |-> b]
\* the combination of the results of a and b on item (k, v): the last truth-table row of the combined tree
AlgRow(op, a, b, k, v) == LET rs == Rows(BinT(op, a, b), k, v) IN rs[Len(rs)]
AlgResult(op, a, b, d) == [j \in 1..Len(d.xs) |-> AlgRow(op, a, b, Keys(d)[j], Vals(d)[j]).res]
AlgFlags(op, a, b, d)  == [j \in 1..Len(d.xs) |-> LET r == AlgRow(op, a, b, Keys(d)[j], Vals(d)[j]) IN
                              [ppe |-> r.ppe, ce |-> r.ce, cf |-> r.cf]]
\* reasons of every failing item, in item order
AlgFailures(op, a, b, d) ==
  LET bad == SelectSeq([j \in 1..Len(d.xs) |-> j], LAMBDA j : ~AlgResult(op, a, b, d)[j])
  IN [q \in 1..Len(bad) |-> Reasons(BinT(op, a, b), Keys(d)[bad[q]], Vals(d)[bad[q]])]
Selected(xs, res) == LET idx == SelectSeq([j \in 1..Len(xs) |-> j], LAMBDA j : res[j]) IN [q \in 1..Len(idx) |-> xs[idx[q]]]
=============================================================================
