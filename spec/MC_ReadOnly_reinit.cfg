CONSTANT Threads = {1, 2}
CONSTANT MaxCalls = 1
CONSTANT AsCodedReinit = TRUE
CONSTANT AllowEdits = TRUE
CONSTANT CastInPlace = FALSE
SPECIFICATION Spec
INVARIANT Immutable
INVARIANT DocsUnchanged
INVARIANT Repeatable
CHECK_DEADLOCK FALSE
