-------------------------------- MODULE Dsl ---------------------------------
(***************************************************************************)
(* The DSL constructor table: how the documented signature of each of the  *)
(* 32 comparison callables binds actual arguments, and which callables     *)
(* exist on which condition class.  Mirrors GeneralCallables/MapCallables  *)
(* in valida/conditions.py and the function signatures in callables.py.    *)
(***************************************************************************)
EXTENDS Cond

GeneralFns == {"equal_to", "not_equal_to", "less_than", "greater_than", "less_than_or_equal_to",
               "greater_than_or_equal_to", "in_", "not_in", "in_range", "not_in_range",
               "equal_to_approx", "factor_of", "has_factor", "truthy", "falsy", "null", "is_instance"}
MapFns == CallableNames \ GeneralFns
\* callables available for (datum, pre)
FnsOf(datum, pre) == IF pre = "none" /\ datum \in {"value", "key"} THEN CallableNames ELSE GeneralFns
ClassExists(datum, pre) == datum \in {"value", "key"} \/ (datum = "index" /\ pre = "none")

\* parameters after the trial datum, of the fixed-signature callables
Params(fn) ==
  CASE fn \in {"equal_to", "not_equal_to", "less_than", "greater_than", "less_than_or_equal_to",
               "greater_than_or_equal_to", "in_", "not_in", "factor_of", "has_factor"} -> <<"value">>
    [] fn \in {"in_range", "not_in_range"} -> <<"lower", "upper">>
    [] fn = "equal_to_approx" -> <<"value", "tolerance">>
    [] fn = "keys_contain" -> <<"key">>
    [] fn \in {"keys_contain_N_of", "keys_contain_at_least_N_of", "keys_contain_at_most_N_of"} -> <<"N", "keys">>
    [] fn \in {"keys_contain_at_least_one_of", "keys_contain_at_most_one_of"} -> <<"keys">>
    [] OTHER -> <<>>
SigKind(fn) ==
  CASE fn \in {"truthy", "falsy", "null"} -> "none"
    [] fn \in {"is_instance", "keys_contain_any_of", "keys_contain_all_of", "keys_contain_one_of",
               "keys_equal_to", "keys_is_instance", "allowed_keys", "required_keys", "forbidden_keys"} -> "varpos"
    [] fn = "items_contain" -> "varkw"
    [] OTHER -> "fixed"
\* number of parameters of the DSL method that have no default
MinArity(fn) == IF fn = "equal_to_approx" THEN 1 ELSE Len(Params(fn))
Eps == V("eps", 0, <<>>)

\* Store(fn, actuals, akw): the binding a DSL call  Cls.fn(*actuals, **akw)  must produce.
\* Normal form: "fixed" -> kw in Params order; "varpos" -> args; "varkw" -> kw.
Store(fn, actuals, akw) ==
  CASE SigKind(fn) = "none" -> [ok |-> actuals = <<>> /\ akw = <<>>, args |-> <<>>, kw |-> <<>>]
    [] SigKind(fn) = "varpos" -> [ok |-> akw = <<>>, args |-> actuals, kw |-> <<>>]
    [] SigKind(fn) = "varkw" -> [ok |-> actuals = <<>>, args |-> <<>>, kw |-> akw]
    [] OTHER ->
       LET ps == Params(fn)
           given(j) == j <= Len(actuals) \/ KwHas(akw, ps[j])
           val(j) == IF j <= Len(actuals) THEN actuals[j]
                     ELSE IF KwHas(akw, ps[j]) THEN KwGet(akw, ps[j]) ELSE Eps
       IN [ok |-> /\ Len(actuals) <= Len(ps)
                  /\ \A j \in 1..Len(ps) : given(j) \/ (fn = "equal_to_approx" /\ j = 2)
                  /\ \A m \in 1..Len(akw) : \E j \in (Len(actuals) + 1)..Len(ps) : NC(ps[j]) = akw[m].nc,
           args |-> <<>>,
           kw |-> [j \in 1..Len(ps) |-> Kw(ps[j], NC(ps[j]), val(j))]]

\* normal form of a stored (args, kw) pair for a fixed-signature callable:
\* positional arguments fill the leading parameters
NormFixed(fn, args, kw) ==
  LET ps == Params(fn) IN
  [j \in 1..Len(ps) |->
     IF j <= Len(args) THEN Kw(ps[j], NC(ps[j]), args[j])
     ELSE IF KwHas(kw, ps[j]) THEN Kw(ps[j], NC(ps[j]), KwGet(kw, ps[j]))
     ELSE Kw(ps[j], NC(ps[j]), Err)]
FixedShapeOk(fn, args, kw) ==
  LET ps == Params(fn) IN
  /\ Len(args) <= Len(ps)
  /\ \A i \in 1..Len(kw) : \E j \in (Len(args) + 1)..Len(ps) : NC(ps[j]) = kw[i].nc
  /\ \A j \in (Len(args) + 1)..Len(ps) : KwHas(kw, ps[j])

SameKwSeq(a, b) == Len(a) = Len(b) /\ \A j \in 1..Len(a) : a[j].nc = b[j].nc /\ SameU(a[j].v, b[j].v)
SameKwSet(a, b) == /\ Len(a) = Len(b)
                   /\ \A j \in 1..Len(a) : \E m \in 1..Len(b) : a[j].nc = b[m].nc /\ SameU(a[j].v, b[m].v)

\* stored form (pargs, pkw) of a projected leaf binds the same arguments as the normal form (sargs, skw)
SameArgsFn(fn, pargs, pkw, sargs, skw) ==
  CASE SigKind(fn) = "fixed" -> FixedShapeOk(fn, pargs, pkw) /\ SameKwSeq(NormFixed(fn, pargs, pkw), skw)
    [] SigKind(fn) = "varkw" -> pargs = <<>> /\ SameKwSet(pkw, skw)
    [] OTHER -> pkw = <<>> /\ Len(pargs) = Len(sargs) /\ \A j \in 1..Len(pargs) : SameU(pargs[j], sargs[j])
=============================================================================
