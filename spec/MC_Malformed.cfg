CONSTANT Shard = 0
CONSTANT NShards = 1
INIT Init
NEXT Next
INVARIANT Total
INVARIANT ClassesRejected
CHECK_DEADLOCK FALSE
