----------------------------- MODULE Gen_CondHeap -----------------------------
(***************************************************************************)
(* Leg C for C02 / C08: behaviours of the condition / part heap machine    *)
(* printed as JSON, to be replayed into real valida objects.  `hist` is a  *)
(* history variable (kept out of MC_CondHeap).                             *)
(*   exhaustive:  every behaviour of length Depth                          *)
(*   -simulate :  random behaviours of length Depth                        *)
(***************************************************************************)
EXTENDS MC_CondHeap, Json
CONSTANTS Depth, MaxBeh
ASSUME TLCSet(1, 0)
VARIABLE hist

GInit == Init /\ hist = <<>>
GNext == /\ Len(hist) < Depth
         /\ Next
         /\ hist' = Append(hist, [step |-> last', hl |-> Len(heap')])
GSpec == GInit /\ [][GNext]_<<heap, last, hist>>

CellView(o) ==
  [cell |-> heap[o],
   term |-> IF IsCondCell(heap, o) THEN TermOf(heap, o) ELSE Null,
   part |-> IF IsPartCell(heap, o) THEN PartOf(heap, o) ELSE Part("none", Null, Null, Null, None),
   evals |-> [di \in 1..Len(Docs) |->
                IF IsCondCell(heap, o)
                THEN [refused |-> Refused(TermOf(heap, o), Docs[di]), os |-> Filter(TermOf(heap, o), Docs[di])]
                ELSE [refused |-> ~Applies(PartOf(heap, o), Docs[di]), os |-> ChildOutcomes(PartOf(heap, o), Docs[di])]]]

Emit ==
  /\ (Len(hist) = 0) => PrintT(ToJson([kind |-> "pool", docs |-> Docs, npool |-> Len(LeafPool)]))
  /\ (Len(hist) = Depth) =>
        /\ PrintT(ToJson([kind |-> "behaviour", hist |-> hist, cells |-> [o \in 1..Len(heap) |-> CellView(o)]]))
        /\ TLCSet(1, TLCGet(1) + 1)
\* ends a -simulate run after MaxBeh behaviours (its "violation" is the normal end of generation)
Budget == TLCGet(1) < MaxBeh
=============================================================================
