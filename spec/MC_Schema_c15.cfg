CONSTANT MaxRules = 3
CONSTANT Pool = "cast"
CONSTANT WriteBackUncast = FALSE
CONSTANT NestedArgs = TRUE
CONSTANT CatchAll = TRUE
CONSTANT CatchValueError = TRUE
CONSTANT SetDatumAnyKey = TRUE
CONSTANT Shard = 0
CONSTANT NShards = 1
INIT Init
NEXT Next
CHECK_DEADLOCK FALSE
INVARIANT CastDataExact
INVARIANT JudgedOnCopy
INVARIANT StableOrderInv
