-------------------------------- MODULE Path --------------------------------
(***************************************************************************)
(* Data paths: parts, coercion of primitive parts, applicability of a part *)
(* to a node, selection, resolution as MECHANISM (frontier expansion with  *)
(* lock-step concrete paths, as DataPath.get_data does) and as MEANING     *)
(* (declarative walk in document pre-order), datum and multiplicity        *)
(* modifiers, and the shape of the answer of get_data.                     *)
(*                                                                         *)
(*   part == [pk \in {"map","list","mol"}, cond, lcond, mcond, label]      *)
(*   path == [parts, concrete, dt, mt]                                     *)
(***************************************************************************)
EXTENDS Dsl

Part(pk, cond, lcond, mcond, label) ==
  [pk |-> pk, cond |-> cond, lcond |-> lcond, mcond |-> mcond, label |-> label]
PathT(parts, concrete, dt, mt) == [parts |-> parts, concrete |-> concrete, dt |-> dt, mt |-> mt]

KwValue(v) == <<Kw("value", NC("value"), v)>>
KeyEq(v) == Leaf("key", "none", "equal_to", <<>>, KwValue(v))
IndexEq(v) == Leaf("index", "none", "equal_to", <<>>, KwValue(v))
ValueEq(v) == Leaf("value", "none", "equal_to", <<>>, KwValue(v))

\* null short-circuit of `a & b` at term level (ConditionBinaryOp.__new__)
AndN(a, b) == IF b.t = "null" THEN a ELSE IF a.t = "null" THEN b ELSE Bin("and", a, b)
BinN(op, a, b) == IF b.t = "null" THEN a ELSE IF a.t = "null" THEN b ELSE Bin(op, a, b)

\* DataPath.__init__: str / float -> MapValue(prim) ; int / bool -> MapOrListValue(key=prim, index=prim)
IsPrim(v) == v.k \in {"str", "float", "int", "bool"}
Coerce(v) == IF v.k \in {"str", "float"} THEN Part("map", KeyEq(v), Null, Null, None)
             ELSE Part("mol", Null, IndexEq(v), KeyEq(v), None)

Applies(part, v) == IsCont(v) /\ (part.pk = "mol" \/ (part.pk = "map" /\ v.k = "map")
                                                  \/ (part.pk = "list" /\ v.k = "list"))
\* the condition a part evaluates on container v (MapOrListValue.filter combines on the fly)
PartCond(part, v) == IF part.pk = "mol" THEN AndN(IF v.k = "list" THEN part.lcond ELSE part.mcond, part.cond)
                     ELSE part.cond
\* outcomes of the children of v under part: <<>> when the part does not apply - also when what it evaluates is a
\* single key condition on a list or a single index condition on a mapping (a map-or-list part given such a condition
\* in its generic slot): the library refuses that filter (Cond.tla Refused) and resolution takes the refusal as "no match"
\* ... and when the combination a map-or-list part makes on the fly (its index or key condition AND its generic
\* condition) would hold key and index conditions at once: that combination is refused (CondHeap.tla Comb:
\* "Cannot combine Key and Index"), which resolution again takes as "no match"
MixesKeyAndIndex(c) == {"key", "index"} \subseteq LeafKinds(c)
ChildOutcomes(part, v) ==
  IF ~Applies(part, v) \/ Refused(PartCond(part, v), v) \/ (part.pk = "mol" /\ MixesKeyAndIndex(PartCond(part, v))) THEN <<>>
  ELSE Filter(PartCond(part, v), v)
SelUnconstrained(part, v) == LET os == ChildOutcomes(part, v) IN \E i \in 1..Len(os) : os[i] = "U"
\* 1-based positions of the selected children
Sel(part, v) == LET os == ChildOutcomes(part, v) IN
                SelectSeq([i \in 1..Len(os) |-> i], LAMBDA i : os[i] = "T")

(***************************************************************************)
(* MECHANISM: frontier of <<value, path>> pairs expanded part by part      *)
(***************************************************************************)
Step(front, part) == Flat([j \in 1..Len(front) |->
                       LET v == front[j][1]  s == Sel(part, v) IN
                       [m \in 1..Len(s) |-> <<Vals(v)[s[m]], Append(front[j][2], Keys(v)[s[m]])>>]])
RECURSIVE Mech(_, _)
Mech(front, parts) == IF parts = <<>> THEN front ELSE Mech(Step(front, Head(parts)), Tail(parts))
ResolveMech(parts, d) == Mech(<< <<d, <<>>>> >>, parts)

(***************************************************************************)
(* MEANING: recursive walk in document pre-order                           *)
(***************************************************************************)
RECURSIVE Walk(_, _, _)
Walk(v, p, parts) == IF parts = <<>> THEN << <<v, p>> >>
                     ELSE LET s == Sel(Head(parts), v) IN
                          Flat([m \in 1..Len(s) |-> Walk(Vals(v)[s[m]], Append(p, Keys(v)[s[m]]), Tail(parts))])
ResolveDecl(parts, d) == Walk(d, <<>>, parts)

RECURSIVE WalkU(_, _)         \* some node reached by the walk is at an unconstrained point
WalkU(v, parts) == IF parts = <<>> THEN FALSE
                   ELSE \/ SelUnconstrained(Head(parts), v)
                        \/ LET s == Sel(Head(parts), v) IN \E m \in 1..Len(s) : WalkU(Vals(v)[s[m]], Tail(parts))

(***************************************************************************)
(* Modifiers and the shape of the answer of get_data                       *)
(***************************************************************************)
DatumMod(dt, v) == CASE dt = "dtype" -> TypeOf(v)
                     [] dt = "length" -> PyLen(v)
                     [] dt = "map_keys" -> IF v.k = "map" THEN ListV(Keys(v)) ELSE Err
                     [] dt = "map_values" -> IF v.k = "map" THEN ListV(Vals(v)) ELSE Err
                     [] OTHER -> v
TupleV(xs) == V("tuple", 0, xs)

\* [status \in {"ok","raised:ValueError","U"}, v]
GetData(path, d, rp) ==
  IF path.parts = <<>> THEN
     LET v == DatumMod(path.dt, d) IN
     IF v.k = "err" THEN [status |-> "U", v |-> None]
     ELSE [status |-> "ok", v |-> IF rp THEN TupleV(<<v, TupleV(<<>>)>>) ELSE v]
  ELSE IF WalkU(d, path.parts) THEN [status |-> "U", v |-> None]
  ELSE
  LET R == ResolveDecl(path.parts, d) IN
  IF R = <<>> THEN [status |-> "ok", v |-> IF path.concrete THEN None ELSE ListV(<<>>)]
  ELSE
  LET vs == [i \in 1..Len(R) |-> DatumMod(path.dt, R[i][1])]
      out == [i \in 1..Len(R) |-> IF rp THEN TupleV(<<vs[i], TupleV(R[i][2])>>) ELSE vs[i]]
      n == Len(R)
  IN IF \E i \in 1..n : vs[i].k = "err" THEN [status |-> "U", v |-> None]
     ELSE CASE path.mt = "first" -> [status |-> "ok", v |-> out[1]]
            [] path.mt = "last" -> [status |-> "ok", v |-> out[n]]
            [] path.mt = "single" -> IF n > 1 THEN [status |-> "raised:ValueError", v |-> None]
                                     ELSE [status |-> "ok", v |-> out[1]]
            [] path.mt = "all" -> [status |-> "ok", v |-> ListV(out)]
            [] path.mt = "any" -> [status |-> "U", v |-> None]
            [] OTHER -> IF path.concrete THEN [status |-> "ok", v |-> out[1]]
                        ELSE [status |-> "ok", v |-> ListV(out)]

\* C04: truthfulness of a reported (value, path) pair
Truthful(d, v, p) == LET ix == Index(d, p) IN ix.ok /\ Same(ix.v, v)
(***************************************************************************)
(* DataPath.simplify()                                                     *)
(***************************************************************************)
\* simplify(): a primitive where the part is what the primitive is coerced to (labels are ignored by simplify),
\* the part itself otherwise.  Result: sequence of [prim, v | part]
SimplifyPart(p) ==
  IF p.pk = "map" /\ p.cond.t = "leaf" /\ p.cond.datum = "key" /\ p.cond.pre = "none" /\ p.cond.fn = "equal_to"
     /\ Len(p.cond.kw) = 1
  THEN [prim |-> TRUE, v |-> p.cond.kw[1].v, part |-> p]
  ELSE IF p.pk = "mol" /\ p.cond.t = "null"
          /\ p.lcond.t = "leaf" /\ p.lcond.datum = "index" /\ p.lcond.pre = "none" /\ p.lcond.fn = "equal_to"
          /\ p.mcond.t = "leaf" /\ p.mcond.datum = "key" /\ p.mcond.pre = "none" /\ p.mcond.fn = "equal_to"
          /\ Len(p.lcond.kw) = 1
  THEN [prim |-> TRUE, v |-> p.lcond.kw[1].v, part |-> p]
  ELSE [prim |-> FALSE, v |-> None, part |-> p]
Simplify(path) == [j \in 1..Len(path.parts) |-> SimplifyPart(path.parts[j])]
=============================================================================
