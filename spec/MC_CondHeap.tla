----------------------------- MODULE MC_CondHeap -----------------------------
(***************************************************************************)
(* Leg A for C02 (and the construction part of C08): bounded exhaustive    *)
(* exploration of the condition / part heap machine.                       *)
(***************************************************************************)
EXTENDS CondHeap
CONSTANTS MaxCells, Acts,
          MolSlots      \* whether MkMol also enumerates explicit list_condition / map_condition arguments

I(n) == IntV(n)
LeafPool == << Leaf("value", "none", "less_than", <<>>, KwValue(I(2))),
               Leaf("value", "none", "greater_than", <<>>, KwValue(I(2))),
               KeyEq(StrV(<<97>>)),
               IndexEq(I(0)),
               Null >>
Docs == << ListV(<<I(1), I(2), I(3)>>),
           MapV(<< <<StrV(<<97>>), I(1)>>, <<StrV(<<98>>), I(3)>> >>),
           ListV(<<I(1), StrV(<<120>>)>>) >>
InitLast == [act |-> "init", op |-> "", a |-> 0, b |-> 0, c |-> 0, res |-> 0, out |-> "init", k2 |-> 0]
Init == heap = [i \in 1..Len(LeafPool) |-> CellLeaf(LeafPool[i])] /\ last = InitLast

Z(S) == {0} \cup S
Next ==
  /\ Len(heap) < MaxCells
  /\ \/ "Combine" \in Acts /\ \E op \in Ops, a \in CondIds, b \in CondIds : Combine(op, a, b)
     \/ "MkPart" \in Acts /\ \E k \in Z(KeyLikeIds), v \in Z(ValueLikeIds), c \in Z({o \in CondIds : "index" \notin KindsOf(heap, o)}) :
           MkPart2("map", k, v, c)
     \/ "MkPart" \in Acts /\ \E k \in Z(IndexLikeIds), v \in Z(ValueLikeIds), c \in Z({o \in CondIds : "key" \notin KindsOf(heap, o)}) :
           MkPart2("list", k, v, c)
     \/ "MkMol" \in Acts /\ \E k \in Z(KeyLikeIds), k2 \in Z(IndexLikeIds), v \in Z(ValueLikeIds), c \in Z(ValueLikeIds),
                                   lc \in (IF MolSlots THEN Z(IndexLikeIds) ELSE {0}),
                                   mc \in (IF MolSlots THEN Z(KeyLikeIds) ELSE {0}) :
           MkMol(k, k2, v, c, lc, mc)
     \/ "PartFilter" \in Acts /\ \E p \in {o \in Ids : heap[o].kind = "mol"}, isList \in BOOLEAN : PartFilter(p, isList)
Spec == Init /\ [][Next]_<<heap, last>>

\* the heap mechanism evaluates every combination to the pointwise Boolean combination of
\* what its operands evaluate to, and to the meaning of its unfolded term
Pointwise ==
  \A o \in CondIds : \A di \in 1..Len(Docs) :
    LET d == Docs[di] IN
    /\ EvalHeap(heap, o, d) = Filter(TermOf(heap, o), d)
    /\ heap[o].kind \in Ops =>
         EvalHeap(heap, o, d) = [i \in 1..Len(d.xs) |->
              OpApply(heap[o].kind, EvalHeap(heap, heap[o].l, d)[i], EvalHeap(heap, heap[o].r, d)[i])]
\* combining with null on either side gives the other operand (same object, hence same behaviour)
NullIdentity ==
  (last.act = "Combine" /\ last.out = "ok") =>
     /\ heap[last.b].kind = "null" => last.res = last.a
     /\ (heap[last.b].kind # "null" /\ heap[last.a].kind = "null") => last.res = last.b
\* a part selects the children satisfying all of its conditions
PartMeaning ==
  \A p \in {o \in Ids : IsPartCell(heap, o)} : \A di \in 1..Len(Docs) :
    LET d == Docs[di]  pt == PartOf(heap, p)  os == ChildOutcomes(pt, d) IN
    Applies(pt, d) =>
      \A i \in 1..Len(os) :
         os[i] = OpApply("and", EvalTree(IF pt.pk = "mol" THEN (IF d.k = "list" THEN pt.lcond ELSE pt.mcond) ELSE Null,
                                         Keys(d)[i], Vals(d)[i]),
                         EvalTree(pt.cond, Keys(d)[i], Vals(d)[i]))
         \/ os[i] = "U"
=============================================================================
