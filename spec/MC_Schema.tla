------------------------------ MODULE MC_Schema ------------------------------
(***************************************************************************)
(* Leg A for C06, C07, C15, C17: the validation process on a bounded       *)
(* universe of schemas (every sequence of <= MaxRules rules from a pool,   *)
(* hence every permutation of every multiset) x documents.                 *)
(*                                                                         *)
(* Switches (CONSTANTS; the shipped configurations use the design values,  *)
(* the negative configurations turn one as-coded deviation on):            *)
(*   WriteBackUncast  (C15)   NestedArgs (C17)                             *)
(*   CatchAll, CatchValueError, SetDatumAnyKey (C07)                       *)
(***************************************************************************)
EXTENDS Schema, TLC
CONSTANTS MaxRules, Pool, WriteBackUncast, NestedArgs, CatchAll, CatchValueError, SetDatumAnyKey, Shard, NShards

I(n) == IntV(n)
S(cs) == StrV(cs)
Sa == S(<<97>>)  Sb == S(<<98>>)
STrue == S(<<116, 114, 117, 101>>)        \* "true"
S3 == S(<<51>>)                           \* "3"
Sx3 == S(<<120, 51>>)                     \* "x3"
KwV(v) == KwValue(v)
Lf(pre, fn, v) == Leaf("value", pre, fn, <<>>, KwV(v))
PP(ps) == PathT(ps, FALSE, "none", "none")
AnyMap == Part("map", Null, Null, Null, None)
AnyList == Part("list", Null, Null, Null, None)
AnyMol == Part("mol", Null, Null, Null, None)
PathArgA == V("dpath", 0, <<PathT(<<Coerce(Sa)>>, TRUE, "none", "none")>>)
PathArgLen == V("dpath", 0, <<PathT(<<Coerce(Sb)>>, TRUE, "length", "none")>>)

\* cast-free pool (C06): two rules of equal path length, two identical rules, one never applicable
PoolPlain == <<
  RuleT(PP(<<>>), Lf("dtype", "equal_to", TypeV(TDict)), <<>>),
  RuleT(PP(<<Coerce(Sa)>>), Lf("none", "less_than", I(3)), <<>>),
  RuleT(PP(<<Coerce(Sb)>>), Lf("dtype", "equal_to", TypeV(TList)), <<>>),
  RuleT(PP(<<Coerce(Sa)>>), Lf("none", "less_than", I(3)), <<>>),
  RuleT(PP(<<Coerce(Sb), AnyList>>), Lf("none", "greater_than", I(0)), <<>>),
  RuleT(PP(<<Coerce(S(<<122>>)), Coerce(I(0))>>), Lf("none", "truthy", None), <<>>) >>
\* cast pool (C15 / C07): str->bool, str->int over str / int keys, list indices, fan-out, two levels, empty path
PoolCast == <<
  RuleT(PP(<<Coerce(Sa)>>), Lf("dtype", "equal_to", TypeV(TBool)), << <<TStr, "bool">> >>),
  RuleT(PP(<<Coerce(Sa)>>), Lf("dtype", "equal_to", TypeV(TInt)), << <<TStr, "int">> >>),
  RuleT(PP(<<Coerce(I(1))>>), Lf("none", "greater_than", I(2)), << <<TStr, "int">> >>),
  RuleT(PP(<<Coerce(Sb), AnyList>>), Lf("none", "greater_than", I(2)), << <<TStr, "int">> >>),
  RuleT(PP(<<AnyMol>>), Lf("dtype", "in_", ListV(<<TypeV(TBool), TypeV(TInt)>>)), << <<TStr, "bool">> >>),
  RuleT(PP(<<>>), Lf("none", "truthy", None), << <<TStr, "int">> >>),
  RuleT(PP(<<Coerce(Sa)>>), Lf("none", "factor_of", I(6)), <<>>) >>
\* path-argument pool (C17)
PoolArgs == <<
  RuleT(PP(<<Coerce(Sb), AnyList>>), Lf("none", "less_than", PathArgA), <<>>),
  RuleT(PP(<<Coerce(Sb), AnyList>>), Lf("none", "in_", ListV(<<PathArgA, I(7)>>)), <<>>),
  RuleT(PP(<<Coerce(Sa)>>), Lf("none", "equal_to", PathArgLen), <<>>),
  RuleT(PP(<<Coerce(Sa)>>), Leaf("value", "none", "in_range", <<>>,
        <<Kw("lower", NC("lower"), I(0)), Kw("upper", NC("upper"), PathArgLen)>>), <<>>) >>
RulePool == CASE Pool = "plain" -> PoolPlain [] Pool = "cast" -> PoolCast [] Pool = "args" -> PoolArgs

Docs == <<
  MapV(<< <<Sa, I(1)>>, <<Sb, ListV(<<I(1), I(0), I(5)>>)>> >>),
  MapV(<< <<Sa, STrue>>, <<Sb, ListV(<<S3, Sx3, I(7)>>)>>, <<I(1), S3>> >>),
  MapV(<< <<Sa, S3>>, <<Sb, ListV(<<>>)>> >>),
  MapV(<< <<Sa, Sx3>>, <<I(1), Sx3>>, <<Sb, Sa>> >>),
  ListV(<<STrue, S3, Sx3, I(0)>>),
  MapV(<< <<Sa, I(0)>>, <<Sb, ListV(<<Sa, ListV(<<I(1)>>)>>)>> >>),
  MapV(<< <<Sa, I(3)>>, <<Sb, ListV(<<I(2), I(3), I(4)>>)>> >>),
  ListV(<<MapV(<< <<Sa, S3>> >>), S3>>) >>

VARIABLES rs, di
vars == <<rs, di>>
NR == Len(RulePool)
RECURSIVE SumSeq(_)
SumSeq(s) == IF s = <<>> THEN 0 ELSE Head(s) + SumSeq(Tail(s))
Init == /\ rs \in UNION {[1..n -> 1..NR] : n \in 0..MaxRules}
        /\ di \in 1..Len(Docs)
        /\ (di + 3 * SumSeq(rs) + Len(rs)) % NShards = Shard
Next == UNCHANGED vars
Rules == [j \in 1..Len(rs) |-> RulePool[rs[j]]]
Doc == Docs[di]
Sw == [nested |-> NestedArgs, wbu |-> WriteBackUncast]
X == Validate(Rules, Doc, Sw)

(********************************* C06 ************************************)
\* canonical order of the same multiset: rule pool indices ascending
RECURSIVE SortedSeq(_)
SortedSeq(s) == IF s = <<>> THEN <<>> ELSE
                LET m == CHOOSE j \in 1..Len(s) : \A q \in 1..Len(s) : s[j] <= s[q]
                IN <<s[m]>> \o SortedSeq([q \in 1..(Len(s) - 1) |-> IF q < m THEN s[q] ELSE s[q + 1]])
Canon == LET c == SortedSeq(rs) IN [j \in 1..Len(c) |-> RulePool[c[j]]]
XC == Validate(Canon, Doc, Sw)
\* the set of (rule pool index, failing path position) pairs
FailSet(x, idx) == UNION {{<<idx[x.tests[k].ri], x.tests[k].t.failidx[j], k * 0>> : j \in 1..Len(x.tests[k].t.failidx)}
                          : k \in 1..Len(x.tests)}
PermutationInvariant ==
  /\ X.valid = XC.valid /\ X.nfail = XC.nfail /\ X.ntested = XC.ntested
  /\ FailSet(X, rs) = FailSet(XC, SortedSeq(rs))
StableOrderInv ==
  LET o == X.order  len == [j \in 1..Len(rs) |-> Len(Rules[j].path.parts)] IN
  /\ Len(o) = Len(rs) /\ \A j \in 1..Len(rs) : \E k \in 1..Len(o) : o[k] = j
  /\ \A k \in 1..(Len(o) - 1) : len[o[k]] < len[o[k + 1]] \/ (len[o[k]] = len[o[k + 1]] /\ o[k] < o[k + 1])
Aggregates ==
  /\ X.valid = (\A k \in 1..Len(X.tests) : X.tests[k].t.fails = <<>>)
  /\ X.nfail >= 0 /\ X.ntested <= Len(rs)
  /\ (rs = <<>>) => (X.valid /\ X.nfail = 0 /\ X.ntested = 0)

(********************************* C15 ************************************)
\* positions (concrete paths) written by successful casts, in process order
CastWrites ==
  LET o == X.order IN
  [k \in 1..Len(o) |->
     LET rule == Rules[o[k]]  R == Select(rule.path, Doc) IN
     IF rule.cast = <<>> THEN <<>>
     ELSE SelectSeq(R, LAMBDA x : CastOne(rule.cast, x[1]).ok /\ x[2] # <<>>)]
AllWrites == Flat(CastWrites)
\* every node not written by a successful cast is type-exactly as in the input; every written node
\* holds the value of a successful cast of the original
RECURSIVE NodesEqualExcept(_, _, _, _)
NodesEqualExcept(a, b, p, W) ==
  IF \E j \in 1..Len(W) : W[j][2] = p THEN TRUE
  ELSE IF a.k # b.k THEN FALSE
  ELSE IF a.k \in {"list", "map"} THEN
         /\ Len(a.xs) = Len(b.xs)
         /\ \A j \in 1..Len(a.xs) :
              /\ Same(Keys(a)[j], Keys(b)[j])
              /\ NodesEqualExcept(Vals(a)[j], Vals(b)[j], Append(p, Keys(a)[j]), W)
  ELSE Same(a, b)
CastDataExact ==
  /\ NodesEqualExcept(Doc, X.cast_data, <<>>, AllWrites)
  /\ \A j \in 1..Len(AllWrites) :
        LET ix == Index(X.cast_data, AllWrites[j][2]) IN
        ix.ok /\ \E m \in 1..Len(AllWrites) :
                   AllWrites[m][2] = AllWrites[j][2] /\ \E q \in 1..Len(Rules) :
                      Rules[q].cast # <<>> /\ CastOne(Rules[q].cast, AllWrites[m][1]).ok
                      /\ Same(ix.v, CastOne(Rules[q].cast, AllWrites[m][1]).v)
JudgedOnCopy ==
  \A k \in 1..Len(X.tests) :
     LET rule == Rules[X.tests[k].ri] IN
     rule.cast = <<>> => X.tests[k].t = RuleTest(rule, Doc, Doc, NestedArgs)

(********************************* C07 ************************************)
RuleRaises(rule) ==
  \/ (rule.cast # <<>> /\ CastRaises(rule, Doc, CatchValueError, SetDatumAnyKey))
  \/ LET R == Select(rule.path, Doc) IN
     \E j \in 1..Len(R) : TreeRaises(rule.cond, I(j - 1), R[j][1], CatchAll)
NeverAborts == \A j \in 1..Len(rs) : ~RuleRaises(Rules[j])

(********************************* C17 ************************************)
\* the per-evaluation resolution mechanism equals substitution of the resolved literal
SubstMeaning ==
  \A j \in 1..Len(rs) :
     LET rule == Rules[j]
         lit == RuleT(rule.path, SubstTree(rule.cond, Doc, TRUE), rule.cast)
         a == RuleTest(rule, Doc, Doc, NestedArgs)
         b == RuleTest(lit, Doc, Doc, TRUE)
     IN (~a.u /\ ~b.u) => (a.valid = b.valid /\ a.failidx = b.failidx)
=============================================================================
