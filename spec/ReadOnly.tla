------------------------------ MODULE ReadOnly ------------------------------
(***************************************************************************)
(* The read fragment of the valida state machine (C08): callers - one or   *)
(* several threads - run filter / get_data / Rule.test / Schema.validate   *)
(* calls that SHARE a schema (rules, paths, parts, conditions) and the     *)
(* caller's documents.  A call is a process of sub-steps, interleaved at   *)
(* the granularity of the mechanism:                                       *)
(*   Start   take the private deep copy of the document                    *)
(*   Resolve select the nodes of the current rule (a map-or-list part      *)
(*           combines its conditions on the fly: ConditionBinaryOp())      *)
(*   Cast    write one successful cast into the PRIVATE copy               *)
(*   Judge   test the rule (on the document, or on the copy if it casts)   *)
(*   Finish  publish the result                                            *)
(* Shared state: `intact` (the children of the schema's combined condition *)
(* are the ones it was built with) and `docs` (the caller's documents).    *)
(* Deviations (switches, FALSE in shipped configurations):                 *)
(*   AsCodedReinit : the on-the-fly combination re-initialises the         *)
(*                   operand it short-circuits to (C02)                    *)
(*   CastInPlace   : casts are written into the caller's document          *)
(***************************************************************************)
EXTENDS Schema, TLC
CONSTANTS Threads, MaxCalls, AsCodedReinit, CastInPlace, AllowEdits

I(n) == IntV(n)
Sa == StrV(<<97>>)  Sb == StrV(<<98>>)
S3 == StrV(<<51>>)  Sx3 == StrV(<<120, 51>>)  S7 == StrV(<<55>>)
Lf(pre, fn, v) == Leaf("value", pre, fn, <<>>, KwValue(v))
PP(ps) == PathT(ps, FALSE, "none", "none")
C1 == Bin("and", Lf("none", "greater_than", I(0)), Lf("none", "less_than", I(10)))
MolC1 == Part("mol", C1, Null, Null, None)           \* MapOrListValue(condition=a & b)
Rules0 == << RuleT(PP(<<MolC1>>), Lf("dtype", "equal_to", TypeV(TInt)), <<>>),
             RuleT(PP(<<Coerce(Sa)>>), Lf("dtype", "equal_to", TypeV(TInt)), << <<TStr, "int">> >>),
             RuleT(PP(<<Coerce(Sb), Part("list", Null, Null, Null, None)>>), Lf("none", "greater_than", I(2)),
                   << <<TStr, "int">> >>) >>
Docs0 == << MapV(<< <<Sa, S3>>, <<Sb, ListV(<<S7, Sx3, I(1)>>)>>, <<I(1), I(5)>> >>),
            ListV(<<I(3), I(20), Sa>>),
            \* equal to the second document under python ==, typed differently (3.0, True-free): a stale result shows
            ListV(<<V("float", 24, <<>>), I(20), Sa>>) >>
\* what the CALLER may change its documents to between calls (an in-place edit below the top level, a retyped item)
DocsAlt == << MapV(<< <<Sa, S3>>, <<Sb, ListV(<<StrV(<<50>>), Sx3, I(1)>>)>>, <<I(1), I(5)>> >>),
              ListV(<<I(3), I(2), Sa>>),
              ListV(<<I(3), I(20), Sa>>) >>
Order == StableOrder(Rules0)

\* calls: <<kind, rule index (0 = whole schema), document index>>
Calls == {<<"validate", 0, d>> : d \in 1..Len(Docs0)} \cup
         {<<"ruletest", r, d>> : r \in 1..Len(Rules0), d \in 1..Len(Docs0)} \cup
         {<<"getdata", r, d>> : r \in {1, 3}, d \in 1..Len(Docs0)} \cup
         {<<"filter", 1, 2>>, <<"filter", 1, 3>>}

VARIABLES intact, docs, pc, cur, k, sel, si, copy, tests, res, ncalls, owner, snap
vars == <<intact, docs, pc, cur, k, sel, si, copy, tests, res, ncalls, owner, snap>>

Init == /\ intact = TRUE /\ docs = Docs0
        /\ pc = [t \in Threads |-> "idle"] /\ cur = [t \in Threads |-> <<"none", 0, 1>>]
        /\ k = [t \in Threads |-> 0] /\ sel = [t \in Threads |-> <<>>] /\ si = [t \in Threads |-> 0]
        /\ copy = [t \in Threads |-> None] /\ tests = [t \in Threads |-> <<>>]
        /\ res = [t \in Threads |-> [kind |-> "none"]] /\ ncalls = [t \in Threads |-> 0]
        /\ owner = Docs0 /\ snap = [t \in Threads |-> None]

RuleIdxs(c) == IF c[1] = "validate" THEN Order ELSE <<c[2]>>
CurRule(t) == Rules0[RuleIdxs(cur[t])[k[t]]]
HasMol(rule) == \E j \in 1..Len(rule.path.parts) : rule.path.parts[j].pk = "mol"

Start(t, c) ==
  /\ pc[t] = "idle" /\ ncalls[t] < MaxCalls
  /\ cur' = [cur EXCEPT ![t] = c] /\ k' = [k EXCEPT ![t] = 1]
  /\ copy' = [copy EXCEPT ![t] = docs[c[3]]]          \* deepcopy(data.get_original())
  /\ tests' = [tests EXCEPT ![t] = <<>>]
  /\ pc' = [pc EXCEPT ![t] = "resolve"]
  /\ ncalls' = [ncalls EXCEPT ![t] = @ + 1]
  /\ snap' = [snap EXCEPT ![t] = docs[c[3]]]
  /\ UNCHANGED <<intact, docs, sel, si, res, owner>>

\* path resolution of the current rule on the caller's document
Resolve(t) ==
  /\ pc[t] = "resolve"
  /\ LET rule == CurRule(t) IN
     /\ sel' = [sel EXCEPT ![t] = Select(rule.path, docs[cur[t][3]])]
     /\ si' = [si EXCEPT ![t] = 1]
     /\ intact' = IF AsCodedReinit /\ HasMol(rule) THEN FALSE ELSE intact
     /\ pc' = [pc EXCEPT ![t] = IF cur[t][1] \in {"getdata", "filter"} THEN "finish"
                                ELSE IF rule.cast = <<>> THEN "judge" ELSE "cast"]
  /\ UNCHANGED <<docs, cur, k, copy, tests, res, ncalls, owner, snap>>

\* one selected node: a successful cast is written into the private copy
Cast(t) ==
  /\ pc[t] = "cast"
  /\ IF si[t] > Len(sel[t]) THEN pc' = [pc EXCEPT ![t] = "judge"] /\ UNCHANGED <<si, copy, docs>>
     ELSE LET n == sel[t][si[t]]  c1 == CastOne(CurRule(t).cast, n[1]) IN
          /\ si' = [si EXCEPT ![t] = @ + 1]
          /\ IF c1.ok /\ n[2] # <<>>
             THEN IF CastInPlace
                  THEN docs' = [docs EXCEPT ![cur[t][3]] = Put(@, n[2], c1.v)] /\ UNCHANGED copy
                  ELSE copy' = [copy EXCEPT ![t] = Put(@, n[2], c1.v)] /\ UNCHANGED docs
             ELSE UNCHANGED <<copy, docs>>
          /\ UNCHANGED pc
  /\ UNCHANGED <<intact, cur, k, sel, tests, res, ncalls, owner, snap>>

Judge(t) ==
  /\ pc[t] = "judge"
  /\ LET rule == CurRule(t)
         on == IF rule.cast = <<>> THEN docs[cur[t][3]] ELSE (IF CastInPlace THEN docs[cur[t][3]] ELSE copy[t])
         tr == IF intact \/ ~HasMol(rule) THEN RuleTest(rule, on, on, TRUE) ELSE [raised |-> "RecursionError"]
     IN tests' = [tests EXCEPT ![t] = Append(@, tr)]
  /\ IF k[t] < Len(RuleIdxs(cur[t]))
     THEN k' = [k EXCEPT ![t] = @ + 1] /\ pc' = [pc EXCEPT ![t] = "resolve"]
     ELSE UNCHANGED k /\ pc' = [pc EXCEPT ![t] = "finish"]
  /\ UNCHANGED <<intact, docs, cur, sel, si, copy, res, ncalls, owner, snap>>

Finish(t) ==
  /\ pc[t] = "finish"
  /\ res' = [res EXCEPT ![t] =
       CASE cur[t][1] = "validate" -> [kind |-> "validate", tests |-> tests[t], cast_data |-> copy[t]]
         [] cur[t][1] = "ruletest" -> [kind |-> "ruletest", tests |-> tests[t], cast_data |-> copy[t]]
         [] OTHER -> [kind |-> cur[t][1], sel |-> sel[t]]]
  /\ pc' = [pc EXCEPT ![t] = "idle"]
  /\ UNCHANGED <<intact, docs, cur, k, sel, si, copy, tests, ncalls, owner, snap>>

\* the caller edits one of its own documents in place (only between calls: editing a document while a call on it
\* is in progress would be the caller's data race)
CallerEdits(d) ==
  /\ AllowEdits /\ \A t \in Threads : pc[t] = "idle"
  /\ \E t \in Threads : ncalls[t] < MaxCalls
  /\ LET new == IF owner[d] = Docs0[d] THEN DocsAlt[d] ELSE Docs0[d] IN
     docs' = [docs EXCEPT ![d] = new] /\ owner' = [owner EXCEPT ![d] = new]
  /\ UNCHANGED <<intact, pc, cur, k, sel, si, copy, tests, res, ncalls, snap>>
Next == \/ \E t \in Threads : \/ \E c \in Calls : Start(t, c)
                              \/ Resolve(t) \/ Cast(t) \/ Judge(t) \/ Finish(t)
        \/ \E d \in 1..Len(Docs0) : CallerEdits(d)
Spec == Init /\ [][Next]_vars /\ \A t \in Threads : WF_vars(Resolve(t) \/ Cast(t) \/ Judge(t) \/ Finish(t))

(***************************************************************************)
(* Properties                                                              *)
(***************************************************************************)
\* what the same call gives on freshly built objects and the caller's original document
Fresh(c, d0) ==
  IF c[1] = "validate"
  THEN LET x == Validate(Rules0, d0, Design) IN
       [kind |-> "validate", tests |-> [j \in 1..Len(x.tests) |-> x.tests[j].t], cast_data |-> x.cast_data]
  ELSE IF c[1] = "ruletest"
  THEN LET rule == Rules0[c[2]]  d == d0
           cp == IF rule.cast = <<>> THEN d ELSE ApplyCasts(rule, d, d)
       IN [kind |-> "ruletest", tests |-> <<RuleTest(rule, IF rule.cast = <<>> THEN d ELSE cp, IF rule.cast = <<>> THEN d ELSE cp, TRUE)>>,
           cast_data |-> cp]
  ELSE [kind |-> c[1], sel |-> Select(Rules0[c[2]].path, d0)]

Immutable == intact
DocsUnchanged == docs = owner
\* every finished call returned what it returns on fresh objects, whatever the other threads did meanwhile
Repeatable == \A t \in Threads : (pc[t] = "idle" /\ res[t].kind # "none") => res[t] = Fresh(cur[t], snap[t])
\* every started call finishes (no sub-step can block or abort)
EveryCallReturns == \A t \in Threads : (pc[t] # "idle") ~> (pc[t] = "idle")
=============================================================================
