CONSTANT AsCodedReinit = TRUE
CONSTANT MolSlots = TRUE
CONSTANT MaxCells = 7
CONSTANT Acts = {"Combine", "MkPart", "MkMol", "PartFilter"}
SPECIFICATION Spec
INVARIANT Acyclic
INVARIANT OnlyDocumentedRefusal
PROPERTY Immutable
CHECK_DEADLOCK FALSE
