----------------------------- MODULE MC_Malformed -----------------------------
(***************************************************************************)
(* Leg A for C19: totality of the parser model.  For every structure of a  *)
(* bounded universe of JSON-like structures over valid tokens, near-miss   *)
(* tokens and names of other Python attributes, every parser returns "ok", *)
(* "err" or "U" (it never fails to evaluate), and each class of injected   *)
(* error is an "err" (no class is vacuous).                                *)
(***************************************************************************)
EXTENDS Unparse, TLC
CONSTANTS Shard, NShards
I(n) == IntV(n)
S(cs) == StrV(cs)
Sa == S(<<97>>)
J(a, b) == a \o <<Dot>> \o b
KeyToks == << J(C("value"), C("equal_to")), J(C("value"), C("filter")), J(C("value"), C("flatten")), J(C("valuex"), C("equal_to")),
              J(J(C("value"), C("foo")), C("equal_to")), J(J(C("value"), C("dtype")), C("equal_to")), J(C("value"), C("in_range")),
              J(C("value"), C("allowed_keys")), J(C("value"), C("items_contain")), C("and"), C("path"), J(C("path"), C("simplify")),
              J(C("path"), C("foo")), C("type"), C("key"), C("value"), C("foo"), C("esc_path"), J(C("index"), C("length")),
              J(C("value"), C("is_instance")), C("condition"), C("cast"), <<>> >>
Scal == <<None, I(1), Sa, S(C("int")), S(C("map_value")), S(C("foo")), BoolV(TRUE), TypeV(TInt)>>
L0 == Scal \o <<ListV(<<>>), MapV(<<>>), ListV(<<I(1), I(2)>>), ListV(<<Sa>>), ListV(<<I(1), I(2), I(3)>>)>>
Map1(S1) == [k \in 1..(Len(KeyToks) * Len(S1)) |->
               MapV(<< <<S(KeyToks[((k - 1) \div Len(S1)) + 1]), S1[((k - 1) % Len(S1)) + 1]>> >>)]
L1 == L0 \o Map1(L0) \o [j \in 1..Len(L0) |-> ListV(<<L0[j]>>)] \o [j \in 1..Len(L0) |-> MapV(<< <<I(1), L0[j]>> >>)]
ML1 == Map1(L1)
\* two-entry mappings (several keys; rule specs)
Two == [k \in 1..(Len(ML1) \div 7) |-> MapV(ML1[k * 7].xs \o ML1[((k * 13) % Len(ML1)) + 1].xs)]
RuleLike == [k \in 1..Len(L1) |-> MapV(<< <<S(C("path")), L1[k]>>, <<S(C("condition")), L1[((k * 5) % Len(L1)) + 1]>>,
                                          <<S(C("cast")), L1[((k * 11) % Len(L1)) + 1]>> >>)]
U == L1 \o ML1 \o Two \o RuleLike
Kinds == <<"cond", "part", "path", "parts", "rule">>

VARIABLES ui, ki
Init == ui \in {j \in 1..Len(U) : j % NShards = Shard} /\ ki \in 1..Len(Kinds)
Next == UNCHANGED <<ui, ki>>
X == U[ui]
St == CASE Kinds[ki] = "cond" -> ParseCond(X).st
        [] Kinds[ki] = "part" -> ParsePart(X).st
        [] Kinds[ki] = "path" -> ParsePath(X).st
        [] Kinds[ki] = "parts" -> IF IsSeqLike(X) THEN ParsePathParts(X.xs).st ELSE "err"
        [] OTHER -> ParseRule(X).st
Total == St \in {"ok", "err", "U"}
\* injected error classes are rejected by the model
V1(k, v) == MapV(<< <<S(k), v>> >>)
ClassesRejected ==
  /\ ParseCond(V1(J(C("valuex"), C("equal_to")), I(1))).st = "err"                        \* unknown datum kind
  /\ ParseCond(V1(J(J(C("value"), C("foo")), C("equal_to")), I(1))).st = "err"            \* unknown pre-processor
  /\ ParseCond(V1(J(J(C("value"), C("filter")), C("equal_to")), I(1))).st = "err"         \* attribute name as pre-processor
  /\ ParseCond(V1(J(C("value"), C("flatten")), None)).st = "err"                          \* attribute name as callable
  /\ ParseCond(V1(J(C("value"), C("from_spec")), MapV(<<>>))).st = "err"
  /\ ParseCond(V1(J(J(C("value"), C("dtype")), C("equal_to")), S(C("foo")))).st = "err"   \* unknown type name
  /\ ParsePath(V1(J(C("path"), C("foo")), ListV(<<Sa>>))).st = "err"                      \* unknown path suffix
  /\ ParsePath(V1(J(C("path"), C("simplify")), ListV(<<Sa>>))).st = "err"
  /\ ParsePart(V1(C("type"), S(C("foo")))).st = "err"                                     \* unknown part type
  /\ ParsePart(MapV(<< <<S(C("type")), S(C("map_value"))>>, <<S(C("foo")), I(1)>> >>)).st = "err"   \* unknown part argument
  /\ ParseCond(V1(J(C("value"), C("in_range")), ListV(<<I(1)>>))).st = "err"              \* wrong arity
  /\ ParseCond(V1(J(C("value"), C("allowed_keys")), I(3))).st = "err"                     \* wrong argument shape
  /\ ParseCond(MapV(<< <<S(J(C("value"), C("truthy"))), None>>, <<S(J(C("value"), C("falsy"))), None>> >>)).st = "err"  \* several keys
  /\ ParseRule(V1(C("path"), ListV(<<Sa>>))).st = "err"                                   \* missing rule field
  /\ ParseRule(MapV(<< <<S(C("path")), ListV(<<Sa>>)>>, <<S(C("condition")), MapV(<<>>)>>,
                       <<S(C("cast")), V1(C("str"), S(C("float")))>> >>)).st = "err"       \* unknown cast type
  /\ ParseCond(V1(<<>>, I(1))).st = "err"
=============================================================================
