------------------------------ MODULE CondHeap ------------------------------
(***************************************************************************)
(* The condition / part fragment of the valida state machine: a heap of    *)
(* API objects with identity, and the public constructions as actions.     *)
(* One action per step the code takes:                                     *)
(*   Combine(op, a, b)       a & b, a | b, a ^ b, ConditionAnd(a, b), ...  *)
(*                           = ConditionBinaryOp.__new__ / __init__        *)
(*   MkPart(pk, k, i, v, c)  MapValue / ListValue / MapOrListValue(...)    *)
(*                           = get_container_value_condition chains        *)
(*   PartFilter(p, d)        part.filter(d): MapOrListValue combines its   *)
(*                           conditions on the fly                         *)
(* Cells: [kind, lf, l, r, c, lc, mc]; ids are positions in `heap`.        *)
(*                                                                         *)
(* AsCodedReinit = TRUE models the pinned code's deviation: when __new__   *)
(* short-circuits to an operand of the SAME class, Python runs __init__ on *)
(* that operand again and rebinds its children to (a, b).                  *)
(***************************************************************************)
EXTENDS Path, TLC

CONSTANTS AsCodedReinit
VARIABLES heap, last

CellLeaf(t) == [kind |-> IF t.t = "null" THEN "null" ELSE "leaf", lf |-> t, l |-> 0, r |-> 0, c |-> 0, lc |-> 0, mc |-> 0]
CellOp(op, a, b) == [kind |-> op, lf |-> Null, l |-> a, r |-> b, c |-> 0, lc |-> 0, mc |-> 0]
CellPart(pk, c, lc, mc) == [kind |-> pk, lf |-> Null, l |-> 0, r |-> 0, c |-> c, lc |-> lc, mc |-> mc]
IsCondCell(h, o) == h[o].kind \in {"leaf", "null", "and", "or", "xor"}
IsPartCell(h, o) == h[o].kind \in {"map", "list", "mol"}

\* unfold a condition cell into a term (fuel guards against the as-coded cycle)
RECURSIVE TermOfF(_, _, _)
TermOfF(h, o, fuel) ==
  IF fuel = 0 THEN Null
  ELSE CASE h[o].kind \in {"leaf", "null"} -> h[o].lf
         [] OTHER -> Bin(h[o].kind, TermOfF(h, h[o].l, fuel - 1), TermOfF(h, h[o].r, fuel - 1))
TermOf(h, o) == TermOfF(h, o, Len(h) + 2)
PartOf(h, o) == Part(h[o].kind, TermOf(h, h[o].c),
                     IF h[o].kind = "mol" THEN TermOf(h, h[o].lc) ELSE Null,
                     IF h[o].kind = "mol" THEN TermOf(h, h[o].mc) ELSE Null, None)

RECURSIVE KindsOfF(_, _, _)
KindsOfF(h, o, fuel) ==
  IF fuel = 0 THEN {}
  ELSE CASE h[o].kind = "null" -> {"value"}
         [] h[o].kind = "leaf" -> {h[o].lf.datum}
         [] OTHER -> KindsOfF(h, h[o].l, fuel - 1) \cup KindsOfF(h, h[o].r, fuel - 1)
KindsOf(h, o) == KindsOfF(h, o, Len(h) + 2)

(***************************************************************************)
(* ConditionBinaryOp(a, b): the null short-circuit returns an operand and  *)
(* allocates nothing; otherwise a new cell.  Pure function of the heap so  *)
(* that constructors can chain it.                                         *)
(***************************************************************************)
Comb(h, op, a, b) ==
  IF h[b].kind = "null" THEN
       IF AsCodedReinit /\ h[a].kind = op
       THEN [h |-> [h EXCEPT ![a] = CellOp(op, a, b)], res |-> a, out |-> "raised:RecursionError"]
       ELSE [h |-> h, res |-> a, out |-> "ok"]
  ELSE IF h[a].kind = "null" THEN
       IF AsCodedReinit /\ h[b].kind = op
       THEN [h |-> [h EXCEPT ![b] = CellOp(op, a, b)], res |-> b, out |-> "raised:RecursionError"]
       ELSE [h |-> h, res |-> b, out |-> "ok"]
  ELSE IF {"key", "index"} \subseteq (KindsOf(h, a) \cup KindsOf(h, b))
       THEN [h |-> h, res |-> 0, out |-> "raised:TypeError"]
  ELSE [h |-> Append(h, CellOp(op, a, b)), res |-> Len(h) + 1, out |-> "ok"]

\* get_container_value_condition(condition, datum_condition): ids, 0 = None.  The fresh
\* NullCondition() standing in for `condition=None` is only allocated if it survives (Materialise):
\* NullCondition() & dc is dc and the fresh null is garbage.
Gcvc(h, cnd, dc) ==
  IF cnd # 0 THEN (IF dc = 0 THEN [h |-> h, res |-> cnd, out |-> "ok"] ELSE Comb(h, "and", cnd, dc))
  ELSE IF dc = 0 THEN [h |-> h, res |-> 0, out |-> "ok"]
  ELSE IF AsCodedReinit /\ h[dc].kind = "and"
       THEN Comb(Append(h, CellLeaf(Null)), "and", Len(h) + 1, dc)
  ELSE [h |-> h, res |-> dc, out |-> "ok"]
Materialise(r) == IF r.out = "ok" /\ r.res = 0
                  THEN [h |-> Append(r.h, CellLeaf(Null)), res |-> Len(r.h) + 1, out |-> "ok"] ELSE r

Ids == 1..Len(heap)
CondIds == {o \in Ids : IsCondCell(heap, o)}
KeyLikeIds == {o \in CondIds : KindsOf(heap, o) = {"key"} /\ heap[o].kind # "null"}
IndexLikeIds == {o \in CondIds : KindsOf(heap, o) = {"index"}}
ValueLikeIds == {o \in CondIds : KindsOf(heap, o) = {"value"} /\ heap[o].kind # "null"}

Combine(op, a, b) ==
  LET r == Comb(heap, op, a, b) IN
  /\ heap' = r.h
  /\ last' = [act |-> "Combine", op |-> op, a |-> a, b |-> b, c |-> 0, res |-> r.res, out |-> r.out, k2 |-> 0]

\* MapValue(key=k, value=v, condition=c) / ListValue(index=k, ...)
MkPart2(pk, k, v, c) ==
  LET r1 == Gcvc(heap, c, k)
      r2 == IF r1.out = "ok" THEN Materialise(Gcvc(r1.h, r1.res, v)) ELSE r1
  IN /\ heap' = IF r2.out = "ok" THEN Append(r2.h, CellPart(pk, r2.res, 0, 0)) ELSE r2.h
     /\ last' = [act |-> "MkPart", op |-> pk, a |-> k, b |-> v, c |-> c,
                 res |-> IF r2.out = "ok" THEN Len(r2.h) + 1 ELSE 0, out |-> r2.out, k2 |-> 0]

\* MapOrListValue(key=k, index=k2, value=v, list_condition=lc, map_condition=mc, condition=c): each of the three slots
\* is get_container_value_condition(<slot argument>, <datum argument>), the list slot first
MkMol(k, k2, v, c, lc, mc) ==
  LET r1 == Materialise(Gcvc(heap, lc, k2))                          \* list_condition
      r2 == IF r1.out = "ok" THEN Materialise(Gcvc(r1.h, mc, k)) ELSE r1   \* map_condition
      r3 == IF r2.out = "ok" THEN Materialise(Gcvc(r2.h, c, v)) ELSE r2   \* condition
  IN /\ heap' = IF r3.out = "ok" THEN Append(r3.h, CellPart("mol", r3.res, r1.res, r2.res)) ELSE r3.h
     /\ last' = [act |-> "MkMol", op |-> "mol", a |-> k, b |-> v, c |-> c,
                 res |-> IF r3.out = "ok" THEN Len(r3.h) + 1 ELSE 0, out |-> r3.out, k2 |-> k2, lc |-> lc, mc |-> mc]

\* part.filter(d) for a map-or-list part: `list_condition & condition` (or map_condition) on the fly;
\* the temporary combination is garbage and not kept in the heap.
PartFilter(p, isList) ==
  LET r == Comb(heap, "and", IF isList THEN heap[p].lc ELSE heap[p].mc, heap[p].c) IN
  /\ heap[p].kind = "mol"
  /\ heap' = IF r.out = "ok" THEN heap ELSE r.h
  /\ last' = [act |-> "PartFilter", op |-> IF isList THEN "list" ELSE "map", a |-> p, b |-> 0, c |-> 0,
              res |-> 0, out |-> IF r.out = "raised:TypeError" THEN "ok" ELSE r.out, k2 |-> 0]

(***************************************************************************)
(* Properties                                                              *)
(***************************************************************************)
\* no construction or read ever alters an existing object
Immutable == [][\A o \in 1..Len(heap) : heap'[o] = heap[o]]_heap
\* children are older than their parent
Acyclic == \A o \in 1..Len(heap) :
             /\ heap[o].kind \in Ops => heap[o].l < o /\ heap[o].r < o
             /\ IsPartCell(heap, o) => heap[o].c < o /\ heap[o].lc < o /\ heap[o].mc < o
\* constructions are total apart from the documented key/index refusal
OnlyDocumentedRefusal == last.out \in {"ok", "raised:TypeError", "init"}

\* MECHANISM of evaluation over the heap (children evaluated, results zipped)
RECURSIVE EvalHeapF(_, _, _, _)
EvalHeapF(h, o, d, fuel) ==
  IF fuel = 0 THEN [i \in 1..Len(d.xs) |-> "U"]
  ELSE CASE h[o].kind \in {"leaf", "null"} -> Filter(h[o].lf, d)
         [] OTHER -> LET x == EvalHeapF(h, h[o].l, d, fuel - 1)  y == EvalHeapF(h, h[o].r, d, fuel - 1)
                     IN [i \in 1..Len(d.xs) |-> OpApply(h[o].kind, x[i], y[i])]
EvalHeap(h, o, d) == EvalHeapF(h, o, d, Len(h) + 2)
=============================================================================
