CONSTANT MaxRules = 2
CONSTANT Pool = "args"
CONSTANT WriteBackUncast = FALSE
CONSTANT NestedArgs = FALSE
CONSTANT CatchAll = TRUE
CONSTANT CatchValueError = TRUE
CONSTANT SetDatumAnyKey = TRUE
CONSTANT Shard = 0
CONSTANT NShards = 1
INIT Init
NEXT Next
CHECK_DEADLOCK FALSE
INVARIANT SubstMeaning
