----------------------------- MODULE Trace_Cond -----------------------------
(***************************************************************************)
(* Leg B acceptor for C01 (and the leaf part of C02/C09): every recorded   *)
(* call of the real valida is one initial state; the invariant Check       *)
(* judges it against Cond.tla.  Run with -continue: total verdict.         *)
(*                                                                         *)
(* Event fields: id, op \in {"filter","test_all","build"}, entry, cond,    *)
(* doc, outcome, result, data, keys, fidx ; for "build": fn, datum, pre,   *)
(* actuals, proj.                                                          *)
(***************************************************************************)
EXTENDS Build, Json, IOUtils, TLC

Events == ndJsonDeserialize(IOEnv.TRACE_FILE)
VARIABLE i
Init == i \in 1..Len(Events)
Next == UNCHANGED i

AllT(os) == IF \E j \in 1..Len(os) : os[j] = "F" THEN "F"
            ELSE IF \E j \in 1..Len(os) : os[j] = "U" THEN "U" ELSE "T"

FilterClauses(e) ==
  LET c == e.cond  d == e.doc
      refused == Refused(c, d)
      ok == e.outcome = "ok"
      exp == Filter(c, d)
  IN << <<"RefusedWithTypeError", refused => e.outcome = "raised:TypeError">>,
        <<"NeverAborts", ~refused => ok>>,
        <<"OneBooleanPerItem", (~refused /\ ok) => Len(e.result) = Len(d.xs)>>,
        <<"ResultIsMeaning", (~refused /\ ok /\ Len(e.result) = Len(d.xs)) => Agrees(e.result, exp)>>,
        <<"MechanismIsMeaning", (~refused /\ c.t = "leaf" /\ ~WrongKind(c, d)) =>
              Agrees(FilterLeafMech(c, d, TRUE), exp)>>,
        <<"DataIsPartition", (~refused /\ ok /\ Len(e.result) = Len(d.xs)) => SameSeq(e.data, ViewData(d, e.result))>>,
        <<"KeysArePartition", (~refused /\ ok /\ Len(e.result) = Len(d.xs)) => SameSeq(e.keys, ViewKeys(d, e.result))>>,
        <<"FailureIndicesArePartition", (~refused /\ ok /\ Len(e.result) = Len(d.xs)) => e.fidx = ViewFail(e.result)>> >>

TestAllClauses(e) ==
  LET c == e.cond  d == e.doc
      refused == Refused(c, d)
      ok == e.outcome = "ok"
      exp == AllT(Filter(c, d))
  IN << <<"RefusedWithTypeError", refused => e.outcome = "raised:TypeError">>,
        <<"NeverAborts", ~refused => ok>>,
        <<"TestAllIsConjunction", (~refused /\ ok) => (exp = "U" \/ e.result[1] = (exp = "T"))>> >>

BuildClauses(e) ==
  LET st == Store(e.fn, e.actuals, e.akw) IN
  << <<"DslCallAccepted", st.ok => e.outcome = "ok">>,
     <<"DslStoresDocumentedArguments", (st.ok /\ e.outcome = "ok") =>
          /\ e.proj.t = "leaf" /\ e.proj.fn = e.fn /\ e.proj.datum = e.datum /\ e.proj.pre = e.pre
          /\ SameArgsFn(e.fn, e.proj.args, e.proj.kw, st.args, st.kw)>> >>

BuildTreeClauses(e) ==
  LET t == e.cond IN
  IF ~StoreOk(t) THEN << <<"Skip", TRUE>> >>
  ELSE << <<"KeyIndexMixRefused", MixErr(t) => e.outcome = "raised:TypeError">>,
          <<"ConstructionSucceeds", ~MixErr(t) => e.outcome = "ok">>,
          <<"ResultIsNullNormalForm", (~MixErr(t) /\ e.outcome = "ok") => TermSame(e.proj, NormT(t))>> >>

Clauses(e) == CASE e.op = "filter" -> FilterClauses(e)
                [] e.op = "buildtree" -> BuildTreeClauses(e)
                [] e.op = "test_all" -> TestAllClauses(e)
                [] e.op = "build" -> BuildClauses(e)

Check == LET e == Events[i]
             \* under C08 the same recorded calls are judged for being read-only only
             cl == IF IOEnv.VERIF_PROP = "C08"
                   THEN << <<"ReadOnly", e.writes = <<>> /\ e.unchanged>> >>
                   ELSE Clauses(e)
             bad == {j \in 1..Len(cl) : ~cl[j][2]}
         IN \/ bad = {}
            \/ LET j == CHOOSE j \in bad : \A m \in bad : j <= m
               IN PrintT(<<"MISMATCH", e.id, cl[j][1]>>) /\ FALSE
=============================================================================
