------------------------------ MODULE Trace_Ext ------------------------------
(* Acceptor for the behaviour beyond the listed properties (harness/extras.py; not a registered check). *)
EXTENDS Ext, Json, IOUtils, TLC
Events == ndJsonDeserialize(IOEnv.TRACE_FILE)
VARIABLE i
Init == i \in 1..Len(Events)
Next == UNCHANGED i

PathEqX(a, b) == PathEq(a, b, FALSE)
PartEqX(a, b) == PartEq(a, b, FALSE)
SimpSame(obs, exp) ==
  /\ Len(obs) = Len(exp)
  /\ \A j \in 1..Len(exp) : obs[j].prim = exp[j].prim
                            /\ (exp[j].prim => Same(obs[j].v, exp[j].v))
                            /\ (~exp[j].prim => PartEqX(obs[j].part, exp[j].part))
Clauses(e) ==
  CASE e.op = "concat" ->
         << <<"ConcatIsPartsConcatenated", e.outcome = "ok" /\ PathEqX(e.result, ConcatPath(e.p, e.q))>>,
            <<"LenIsNumberOfParts", e.len = Len(e.p.parts) + Len(e.q.parts)>> >>
    [] e.op = "slice" ->
         << <<"SliceIsPartsSlice", e.outcome = "ok" /\ PathEqX(e.result, SlicePath(e.p, e.a, e.b))>> >>
    [] e.op = "simplify" ->
         << <<"SimplifyGivesPrimitivesWherePossible", e.outcome = "ok" /\ SimpSame(e.simp, Simplify(e.p))>>,
            <<"SimplifyRoundTrip", (e.outcome = "ok" /\ \A j \in 1..Len(e.p.parts) : e.p.parts[j].label.k = "none") =>
                 (e.rebuilt_eq /\ PathEqX(e.rebuilt, [e.p EXCEPT !.concrete = \A j \in 1..Len(e.simp) : e.simp[j].prim,
                                                                  !.dt = "none", !.mt = "none"]))>> >>
    [] e.op = "set" ->
         LET ix == Index(e.doc, e.keys) IN
         << <<"SetRefusedOnNonConcrete", ~e.concrete => e.outcome = "raised:TypeError">>,
            <<"SetReplacesExactlyTheNode", (e.concrete /\ ix.ok /\ e.keys # <<>>) =>
                 (e.outcome = "ok" /\ Same(e.result, Put(e.doc, e.keys, e.datum)))>>,
            <<"SetLeavesTheOriginal", e.unchanged>> >>
    [] e.op = "rule_paths" ->
         LET dup == HasDuplicate(e.paths)  inc == HasIncompatible(e.paths) IN
         << <<"DuplicateRuleDetected", dup => e.outcome = "raised:DuplicateRule">>,
            <<"IncompatibleRulesDetected", (~dup /\ inc) => e.outcome = "raised:IncompatibleRules">>,
            <<"CompatibleRulesAccepted", (~dup /\ ~inc) => e.outcome = "ok">>,
            <<"PredictedTypes", (~dup /\ ~inc /\ e.outcome = "ok") =>
                 \A j \in 1..Len(e.predicted) :
                    e.predicted[j].type = Resolved(TypesAt(e.paths, Prefix(e.paths[e.predicted[j].r], e.predicted[j].k)))>> >>
    [] e.op = "reasons" ->
         LET t == NormT(e.rcond)  d == e.doc
             unc == \E j \in 1..Len(d.xs) : Filter(t, d)[j] = "U"
         IN IF ~StoreOk(e.rcond) \/ MixErr(e.rcond) \/ unc \/ e.outcome # "ok" THEN << <<"Skip", TRUE>> >> ELSE
         << <<"TruthTableResultColumn", \A j \in 1..Len(d.xs) : e.table[j] = ResultRows(t, Keys(d)[j], Vals(d)[j])>>,
            <<"ReasonsAreFirstFlagPerRow", \A j \in 1..Len(d.xs) :
                 e.reasons[j] = (IF Filter(t, d)[j] = "T" THEN <<>> ELSE Reasons(t, Keys(d)[j], Vals(d)[j]))>> >>
    [] e.op = "data_api" ->
         IF ~DataOk(e.doc) THEN << <<"DataRefusesScalarsAndEmpty", e.outcome = "raised:TypeError">> >> ELSE
         << <<"DataAccepted", e.outcome = "ok">>,
            <<"LenIsNumberOfChildren", e.len = DataLen(e.doc)>>,
            <<"IterYieldsKeysInOrder", SameSeq(e.iter, DataIter(e.doc))>>,
            <<"GetItemIsChildValueByPosition", Len(e.items) = DataLen(e.doc) /\ \A j \in 1..Len(e.items) : Same(e.items[j], DataItem(e.doc, j - 1))>>,
            <<"IsListIsKind", e.is_list = (e.doc.k = "list")>>,
            <<"OriginalIsTheDocument", Same(e.result, e.doc)>>,
            <<"DataEqIsStructural", e.eq_copy /\ ~e.eq_other>> >>
    [] e.op = "fd_algebra" ->
         LET a == NormT(e.rcond)  b == NormT(e.rcond2)  d == e.doc
             unc == \E j \in 1..Len(d.xs) : Filter(a, d)[j] = "U" \/ Filter(b, d)[j] = "U"
         IN IF ~StoreOk(e.rcond) \/ ~StoreOk(e.rcond2) \/ MixErr(e.rcond) \/ MixErr(e.rcond2) \/ unc \/ e.outcome # "ok"
            THEN << <<"Skip", TRUE>> >> ELSE
         << <<"AlgebraIsItemwise", e.res = AlgResult(e.bop, a, b, d)>>,
            <<"FlagsCombine", \A j \in 1..Len(d.xs) : LET f == AlgFlags(e.bop, a, b, d)[j] IN
                 e.ppe[j] = f.ppe /\ e.ce[j] = f.ce /\ e.cf[j] = f.cf>>,
            <<"SelectedDataAndKeys", SameSeq(e.data, Selected(Vals(d), e.res)) /\ SameSeq(e.keys, Selected(Keys(d), e.res))>>,
            <<"FailuresAreReasonsOfFailingItems", e.reasons = AlgFailures(e.bop, a, b, d)>>,
            \* combining CONDITIONS treats null as the identity of every operator (C02); combining RESULTS treats the
            \* all-true result of null as an ordinary operand - the two agree unless an operand is null
            <<"FilteringCommutesWithCombiningUnlessNull", (a.t # "null" /\ b.t # "null") => e.same_as_cond>>,
            <<"ConditionAlgebraDropsNull", e.cond_res = [j \in 1..Len(d.xs) |->
                  Filter(IF a.t = "null" THEN b ELSE IF b.t = "null" THEN a ELSE BinT(e.bop, a, b), d)[j] = "T"]>>,
            <<"DifferentSourcesRefused", e.other_source = "raised:RuntimeError">> >>
    [] e.op = "filter_paths" ->
         LET t == NormT(e.rcond)  d == e.doc
             unc == \E j \in 1..Len(d.xs) : Filter(t, d)[j] = "U"
         IN IF ~StoreOk(e.rcond) \/ MixErr(e.rcond) \/ unc \/ e.outcome # "ok" THEN << <<"Skip", TRUE>> >> ELSE
         << <<"ResultIsThatOfTheValues", e.res = [j \in 1..Len(d.xs) |-> Filter(t, d)[j] = "T"]>>,
            <<"DataAreTheValues", SameSeq(e.data, Selected(Vals(d), e.res))>>,
            <<"ItemsCarryTheirPaths", Len(e.items) = Len(d.xs) /\ \A j \in 1..Len(e.items) :
                 Same(e.items[j].source, Vals(d)[j]) /\ e.items[j].result = e.res[j] /\ Same(e.items[j].path, e.paths[j])>>,
            <<"ItemFailureIsFailureByIndex", e.item_fail_ok>> >>
    [] e.op = "kinds" ->
         LET t == NormT(e.rcond) IN
         << <<"KindPredicates", (StoreOk(e.rcond) /\ ~MixErr(e.rcond) /\ t.t # "null") =>
                 (e.is_value = IsValueLike(t) /\ e.is_key = IsKeyLike(t) /\ e.is_index = IsIndexLike(t))>>,
            <<"FlattenListsLeavesInOrder", (StoreOk(e.rcond) /\ ~MixErr(e.rcond)) =>
                 (e.nleaves = Len(Leaves(t)) /\ e.nops = Len(Leaves(t)) - 1)>> >>
Check == LET e == Events[i]
             cl == Clauses(e)
             bad == {j \in 1..Len(cl) : ~cl[j][2]}
         IN \/ bad = {}
            \/ LET j == CHOOSE j \in bad : \A m \in bad : j <= m
               IN PrintT(<<"MISMATCH", e.id, cl[j][1]>>) /\ FALSE
=============================================================================
