------------------------------ MODULE Trace_Ext ------------------------------
(* Acceptor for the behaviour beyond the listed properties (harness/extras.py; not a registered check). *)
EXTENDS Ext, Json, IOUtils, TLC
Events == ndJsonDeserialize(IOEnv.TRACE_FILE)
VARIABLE i
Init == i \in 1..Len(Events)
Next == UNCHANGED i

PathEqX(a, b) == PathEq(a, b, FALSE)
PartEqX(a, b) == PartEq(a, b, FALSE)
SimpSame(obs, exp) ==
  /\ Len(obs) = Len(exp)
  /\ \A j \in 1..Len(exp) : obs[j].prim = exp[j].prim
                            /\ (exp[j].prim => Same(obs[j].v, exp[j].v))
                            /\ (~exp[j].prim => PartEqX(obs[j].part, exp[j].part))
Clauses(e) ==
  CASE e.op = "concat" ->
         << <<"ConcatIsPartsConcatenated", e.outcome = "ok" /\ PathEqX(e.result, ConcatPath(e.p, e.q))>>,
            <<"LenIsNumberOfParts", e.len = Len(e.p.parts) + Len(e.q.parts)>> >>
    [] e.op = "slice" ->
         << <<"SliceIsPartsSlice", e.outcome = "ok" /\ PathEqX(e.result, SlicePath(e.p, e.a, e.b))>> >>
    [] e.op = "simplify" ->
         << <<"SimplifyGivesPrimitivesWherePossible", e.outcome = "ok" /\ SimpSame(e.simp, Simplify(e.p))>>,
            <<"SimplifyRoundTrip", (e.outcome = "ok" /\ \A j \in 1..Len(e.p.parts) : e.p.parts[j].label.k = "none") =>
                 (e.rebuilt_eq /\ PathEqX(e.rebuilt, [e.p EXCEPT !.concrete = \A j \in 1..Len(e.simp) : e.simp[j].prim,
                                                                  !.dt = "none", !.mt = "none"]))>> >>
    [] e.op = "set" ->
         LET ix == Index(e.doc, e.keys) IN
         << <<"SetRefusedOnNonConcrete", ~e.concrete => e.outcome = "raised:TypeError">>,
            <<"SetReplacesExactlyTheNode", (e.concrete /\ ix.ok /\ e.keys # <<>>) =>
                 (e.outcome = "ok" /\ Same(e.result, Put(e.doc, e.keys, e.datum)))>>,
            <<"SetLeavesTheOriginal", e.unchanged>> >>
    [] e.op = "rule_paths" ->
         LET dup == HasDuplicate(e.paths)  inc == HasIncompatible(e.paths) IN
         << <<"DuplicateRuleDetected", dup => e.outcome = "raised:DuplicateRule">>,
            <<"IncompatibleRulesDetected", (~dup /\ inc) => e.outcome = "raised:IncompatibleRules">>,
            <<"CompatibleRulesAccepted", (~dup /\ ~inc) => e.outcome = "ok">>,
            <<"PredictedTypes", (~dup /\ ~inc /\ e.outcome = "ok") =>
                 \A j \in 1..Len(e.predicted) :
                    e.predicted[j].type = Resolved(TypesAt(e.paths, Prefix(e.paths[e.predicted[j].r], e.predicted[j].k)))>> >>
    [] e.op = "reasons" ->
         LET t == NormT(e.rcond)  d == e.doc
             unc == \E j \in 1..Len(d.xs) : Filter(t, d)[j] = "U"
         IN IF ~StoreOk(e.rcond) \/ MixErr(e.rcond) \/ unc \/ e.outcome # "ok" THEN << <<"Skip", TRUE>> >> ELSE
         << <<"TruthTableResultColumn", \A j \in 1..Len(d.xs) : e.table[j] = ResultRows(t, Keys(d)[j], Vals(d)[j])>>,
            <<"ReasonsAreFirstFlagPerRow", \A j \in 1..Len(d.xs) :
                 e.reasons[j] = (IF Filter(t, d)[j] = "T" THEN <<>> ELSE Reasons(t, Keys(d)[j], Vals(d)[j]))>> >>
    [] e.op = "kinds" ->
         LET t == NormT(e.rcond) IN
         << <<"KindPredicates", (StoreOk(e.rcond) /\ ~MixErr(e.rcond) /\ t.t # "null") =>
                 (e.is_value = IsValueLike(t) /\ e.is_key = IsKeyLike(t) /\ e.is_index = IsIndexLike(t))>>,
            <<"FlattenListsLeavesInOrder", (StoreOk(e.rcond) /\ ~MixErr(e.rcond)) =>
                 (e.nleaves = Len(Leaves(t)) /\ e.nops = Len(Leaves(t)) - 1)>> >>
Check == LET e == Events[i]
             cl == Clauses(e)
             bad == {j \in 1..Len(cl) : ~cl[j][2]}
         IN \/ bad = {}
            \/ LET j == CHOOSE j \in bad : \A m \in bad : j <= m
               IN PrintT(<<"MISMATCH", e.id, cl[j][1]>>) /\ FALSE
=============================================================================
