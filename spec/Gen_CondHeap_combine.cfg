CONSTANT AsCodedReinit = FALSE
CONSTANT MolSlots = TRUE
CONSTANT MaxCells = 99
CONSTANT Depth = 2
CONSTANT Acts = {"Combine"}
CONSTANT MaxBeh = 100000000
SPECIFICATION GSpec
INVARIANT Emit
INVARIANT Budget
CHECK_DEADLOCK FALSE
