CONSTANT AsCodedReinit = FALSE
CONSTANT MolSlots = TRUE
CONSTANT MaxCells = 99
CONSTANT Depth = 5
CONSTANT Acts = {"Combine", "MkPart", "MkMol", "PartFilter"}
CONSTANT MaxBeh = 1500
SPECIFICATION GSpec
INVARIANT Emit
INVARIANT Budget
CHECK_DEADLOCK FALSE
