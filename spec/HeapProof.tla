----------------------------- MODULE HeapProof -----------------------------
(* Unbounded safety of the abstract condition heap (the skeleton of CondHeap.tla): children are older than their
   parent and no construction alters an existing cell, for heaps of any size.  Checked by TLAPS. *)
EXTENDS Naturals, Sequences, TLAPS
VARIABLE heap
Cell == [l : Nat, r : Nat]
TypeOK == heap \in Seq(Cell)
Acyclic == \A o \in 1..Len(heap) : heap[o].l < o /\ heap[o].r < o
Init == heap = <<>>
MkLeaf == heap' = Append(heap, [l |-> 0, r |-> 0])
Combine(a, b) == heap' = Append(heap, [l |-> a, r |-> b])
Next == \/ MkLeaf
        \/ \E a, b \in 1..Len(heap) : Combine(a, b)
        \/ UNCHANGED heap              \* null short-circuit: an operand is returned, nothing allocated
Spec == Init /\ [][Next]_heap
Inv == TypeOK /\ Acyclic
Immutable == \A o \in 1..Len(heap) : heap'[o] = heap[o]

LEMMA InitInv == Init => Inv
  BY DEF Init, Inv, TypeOK, Acyclic

LEMMA StepInv == Inv /\ [Next]_heap => Inv'
<1> SUFFICES ASSUME Inv, [Next]_heap PROVE Inv'
  OBVIOUS
<1>1. CASE MkLeaf
  <2>1. [l |-> 0, r |-> 0] \in Cell
    BY DEF Cell
  <2>2. heap' \in Seq(Cell) /\ Len(heap') = Len(heap) + 1
    BY <1>1, <2>1 DEF MkLeaf, Inv, TypeOK
  <2>3. \A o \in 1..Len(heap) : heap'[o] = heap[o]
    BY <1>1 DEF MkLeaf, Inv, TypeOK
  <2>4. heap'[Len(heap) + 1] = [l |-> 0, r |-> 0]
    BY <1>1 DEF MkLeaf, Inv, TypeOK
  <2> QED
    BY <2>2, <2>3, <2>4 DEF Inv, TypeOK, Acyclic
<1>2. CASE \E a, b \in 1..Len(heap) : Combine(a, b)
  <2> PICK a \in 1..Len(heap), b \in 1..Len(heap) : Combine(a, b)
    BY <1>2
  <2>1. [l |-> a, r |-> b] \in Cell
    BY DEF Cell
  <2>2. heap' \in Seq(Cell) /\ Len(heap') = Len(heap) + 1
    BY <2>1 DEF Combine, Inv, TypeOK
  <2>3. \A o \in 1..Len(heap) : heap'[o] = heap[o]
    BY DEF Combine, Inv, TypeOK
  <2>4. heap'[Len(heap) + 1] = [l |-> a, r |-> b]
    BY DEF Combine, Inv, TypeOK
  <2> QED
    BY <2>2, <2>3, <2>4 DEF Inv, TypeOK, Acyclic
<1>3. CASE UNCHANGED heap
  BY <1>3 DEF Inv, TypeOK, Acyclic
<1> QED
  BY <1>1, <1>2, <1>3 DEF Next

THEOREM Safety == Spec => []Inv
  BY InitInv, StepInv, PTL DEF Spec

LEMMA StepImmutable == Inv /\ [Next]_heap => Immutable
<1> SUFFICES ASSUME Inv, [Next]_heap PROVE Immutable
  OBVIOUS
<1>1. CASE MkLeaf
  BY <1>1 DEF MkLeaf, Inv, TypeOK, Immutable
<1>2. CASE \E a, b \in 1..Len(heap) : Combine(a, b)
  BY <1>2 DEF Combine, Inv, TypeOK, Immutable
<1>3. CASE UNCHANGED heap
  BY <1>3 DEF Immutable
<1> QED
  BY <1>1, <1>2, <1>3 DEF Next
=============================================================================
