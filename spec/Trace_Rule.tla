----------------------------- MODULE Trace_Rule -----------------------------
(***************************************************************************)
(* Leg B acceptor for C05, C06, C07, C15, C17: recorded Rule.test and      *)
(* Schema.validate calls of the real valida judged against Rule.tla /      *)
(* Schema.tla.                                                             *)
(***************************************************************************)
EXTENDS Schema, Json, IOUtils, TLC

Events == ndJsonDeserialize(IOEnv.TRACE_FILE)
VARIABLE i
Init == i \in 1..Len(Events)
Next == UNCHANGED i

RuleOf(r) == RuleT(MkPathT(r.rparts, r.dt, r.mt), NormT(r.rcond), r.cast)
RuleRecipeOk(r) == (\A j \in 1..Len(r.rparts) : PartRecipeOk(r.rparts[j])) /\ StoreOk(r.rcond) /\ ~MixErr(r.rcond)

SamePath(a, b) == Len(a) = Len(b) /\ \A q \in 1..Len(a) : Same(a[q], b[q])
\* observed failures (records [value, path (tuple value)]) are exactly the expected <<value, path>> pairs, in order
SameFails(obs, exp) ==
  /\ Len(obs) = Len(exp)
  /\ \A j \in 1..Len(exp) : Same(obs[j].value, exp[j][1]) /\ obs[j].path.k = "tuple" /\ SamePath(obs[j].path.xs, exp[j][2])

\* In a schema the failure values of a cast rule are nodes of the shared private copy: a container
\* value therefore shows the casts later rules applied beneath it (it IS the node of cast_data),
\* a scalar value is the one judged.  Both readings are accepted (DESIGN.md Corrections 2).
SameFailsAlias(obs, exp, final) ==
  /\ Len(obs) = Len(exp)
  /\ \A j \in 1..Len(exp) :
        /\ obs[j].path.k = "tuple" /\ SamePath(obs[j].path.xs, exp[j][2])
        /\ \/ Same(obs[j].value, exp[j][1])
           \/ LET ix == Index(final, exp[j][2]) IN ix.ok /\ Same(obs[j].value, ix.v)

RuleTestClauses(e) ==
  LET rule == RuleOf(e.rule)
      d == e.doc
      copy == IF rule.cast = <<>> THEN d ELSE ApplyCasts(rule, d, d)
      t == RuleTest(rule, copy, copy, TRUE)
      ok == e.outcome = "ok"
  IN IF ~RuleRecipeOk(e.rule) THEN << <<"Skip", TRUE>> >> ELSE
     << <<"RuleConstruction", /\ PathSame(e.proj.path, rule.path) /\ TermSame(e.proj.cond, rule.cond)
                              /\ e.proj.cast = rule.cast>>,
        <<"NeverRaises", ~t.u => ok>>,
        <<"TestedIffPathSelects", (~t.u /\ ok) => e.tested = t.tested>>,
        <<"ValidIffAllSelectedSatisfy", (~t.u /\ ok) => e.valid = t.valid>>,
        <<"NumFailuresIsLength", ok => e.nfail = Len(e.fails)>>,
        <<"FailuresAreFailingNodes", (~t.u /\ ok) => SameFails(e.fails, t.fails)>>,
        <<"EveryFailureHasReason", ok => \A j \in 1..Len(e.fails) : e.fails[j].nreasons >= 1 /\ e.fails[j].reasons_str>>,
        \* ... exactly one reason per truth-table row that fails the item (leaf rows and xor rows; Rule.tla ReasonCount)
        <<"ReasonsAreTheFailingRows", (~t.u /\ ok /\ Len(e.fails) = Len(t.failidx)) =>
              LET cs == SubstTree(rule.cond, copy, TRUE) IN
              \A j \in 1..Len(e.fails) :
                 e.fails[j].nreasons = ReasonCount(cs, IntV(t.failidx[j] - 1), t.sel[t.failidx[j]][1])>>,
        <<"JudgedOnCopyWithCasts", (~t.u /\ ok) => Same(e.data, copy)>>,
        <<"SameVerdictAsLiteral", (e.has_lit /\ ok) =>
              /\ e.lit_outcome = "ok" /\ e.lit_valid = e.valid /\ e.lit_tested = e.tested
              /\ Len(e.lit_fails) = Len(e.fails)
              /\ \A j \in 1..Len(e.fails) : Same(e.lit_fails[j].value, e.fails[j].value)
                                            /\ Same(e.lit_fails[j].path, e.fails[j].path)>> >>

\* set equality of two sequences of [ri, path] failure descriptors
FailSetEq(a, b) ==
  /\ \A j \in 1..Len(a) : \E m \in 1..Len(b) : a[j].ri = b[m].ri /\ Same(a[j].path, b[m].path)
  /\ \A m \in 1..Len(b) : \E j \in 1..Len(a) : a[j].ri = b[m].ri /\ Same(a[j].path, b[m].path)
  /\ Len(a) = Len(b)

ValidateClauses(e) ==
  LET rules == [j \in 1..Len(e.rules) |-> RuleOf(e.rules[j])]
      d == e.doc
      x == Validate(rules, d, Design)
      ok == e.outcome = "ok"
      recipeOk == \A j \in 1..Len(e.rules) : RuleRecipeOk(e.rules[j])
  IN IF ~recipeOk THEN << <<"Skip", TRUE>> >> ELSE
     << <<"NeverRaises", ~x.u => ok>>,
        <<"StableShortestFirst", ok => e.order = x.order>>,
        <<"ValidIsConjunction", (~x.u /\ ok) => e.valid = x.valid>>,
        <<"FailureCountIsSum", (~x.u /\ ok) => e.nfail = x.nfail>>,
        <<"TestedCountIsPathsExisting", (~x.u /\ ok) => e.ntested = x.ntested>>,
        <<"PerRuleVerdicts", (~x.u /\ ok /\ e.order = x.order) =>
              /\ Len(e.tests) = Len(x.tests)
              /\ \A k \in 1..Len(x.tests) :
                    /\ e.tests[k].valid = x.tests[k].t.valid /\ e.tests[k].tested = x.tests[k].t.tested
                    /\ IF rules[x.tests[k].ri].cast = <<>> THEN SameFails(e.tests[k].fails, x.tests[k].t.fails)
                       ELSE SameFailsAlias(e.tests[k].fails, x.tests[k].t.fails, x.cast_data)>>,
        <<"CastDataExact", (~x.u /\ ok) => Same(e.cast_data, x.cast_data)>>,
        <<"ReportIsString", ok => e.report_is_str>>,
        <<"ReportNamesEveryFailingPath", (ok /\ e.nfail > 0) => e.report_names_all>>,
        <<"PermutationInvariant", (ok /\ e.has_base) =>
              /\ e.valid = e.base_valid /\ e.nfail = e.base_nfail /\ e.ntested = e.base_ntested
              /\ FailSetEq(e.failset, e.base_failset)>> >>

\* calls recorded from the repository's own tests: rules known by their projection only
RuleTestProjClauses(e) ==
  LET rule == e.proj  d == e.doc
      copy == IF rule.cast = <<>> THEN d ELSE ApplyCasts(rule, d, d)
      t == RuleTest(rule, copy, copy, TRUE)
      ok == e.outcome = "ok"
  IN << <<"NeverRaises", ~t.u => ok>>,
        <<"TestedIffPathSelects", (~t.u /\ ok) => e.tested = t.tested>>,
        <<"ValidIffAllSelectedSatisfy", (~t.u /\ ok) => e.valid = t.valid>>,
        <<"NumFailuresIsLength", ok => e.nfail = Len(e.fails)>>,
        <<"FailuresAreFailingNodes", (~t.u /\ ok) => SameFails(e.fails, t.fails)>>,
        <<"EveryFailureHasReason", ok => \A j \in 1..Len(e.fails) : e.fails[j].nreasons >= 1 /\ e.fails[j].reasons_str>> >>
ValidateProjClauses(e) ==
  LET x == Validate(e.projs, e.doc, Design)  ok == e.outcome = "ok" IN
  \* e.projs are Schema.rules, i.e. already in application order
  << <<"NeverRaises", ~x.u => ok>>,
     <<"ValidIsConjunction", (~x.u /\ ok) => e.valid = x.valid>>,
     <<"FailureCountIsSum", (~x.u /\ ok) => e.nfail = x.nfail>>,
     <<"TestedCountIsPathsExisting", (~x.u /\ ok) => e.ntested = x.ntested>>,
     <<"CastDataExact", (~x.u /\ ok) => Same(e.cast_data, x.cast_data)>> >>

Clauses(e) == CASE e.op = "ruletest" -> RuleTestClauses(e)
                [] e.op = "ruletest_proj" -> RuleTestProjClauses(e)
                [] e.op = "validate_proj" -> ValidateProjClauses(e)
                [] e.op = "validate" -> ValidateClauses(e)

Check == LET e == Events[i]
             \* under C08 the same recorded calls are judged for being read-only only
             \* under C15 ("... in a PRIVATE copy") additionally: the caller's document - raw or wrapped in a Data object,
             \* at every depth - is as it was
             cl == IF IOEnv.VERIF_PROP = "C08"
                   THEN << <<"ReadOnly", e.writes = <<>> /\ e.unchanged>> >>
                   ELSE IF IOEnv.VERIF_PROP = "C15"
                   THEN Clauses(e) \o << <<"CastsGoToAPrivateCopy", e.outcome = "ok" => e.unchanged>> >>
                   ELSE Clauses(e)
             bad == {j \in 1..Len(cl) : ~cl[j][2]}
         IN \/ bad = {}
            \/ LET j == CHOOSE j \in bad : \A m \in bad : j <= m
               IN PrintT(<<"MISMATCH", e.id, cl[j][1]>>) /\ FALSE
=============================================================================
