------------------------------- MODULE MC_Rule -------------------------------
(***************************************************************************)
(* Leg A for C05: over every condition tree of <= 3 value-kind leaves in   *)
(* every shape x small documents x paths:                                  *)
(*  - the (value, path) wrapper mechanism lets EVERY leaf see the node      *)
(*    value (paths are stripped by the first leaf in evaluation order);     *)
(*  - every failing node has at least one reason;                          *)
(*  - failures are exactly the failing sub-sequence of the selection;       *)
(*  - validity is the conjunction over the selection; untested iff empty.   *)
(* SecondChildStrips = TRUE is a deliberately wrong mechanism (vacuity).   *)
(***************************************************************************)
EXTENDS Rule, TLC
CONSTANTS SecondChildStrips, Shard, NShards

I(n) == IntV(n)
Sa == StrV(<<97>>)
LeafPool == << Leaf("value", "none", "less_than", <<>>, KwValue(I(2))),
               Leaf("value", "dtype", "equal_to", <<>>, KwValue(TypeV(TInt))),
               Leaf("value", "length", "greater_than", <<>>, KwValue(I(0))),
               Leaf("value", "none", "truthy", <<>>, <<>>) >>
NL == Len(LeafPool)
\* trees as nested index structures: shapes over <= 3 leaves
Shapes == << <<"l">>, <<"b", "l", "l">>, <<"b", <<"b", "l", "l">>, "l">>, <<"b", "l", <<"b", "l", "l">>>> >>
OpSeq == <<"and", "or", "xor">>

Docs == << ListV(<<I(1), I(3), Sa>>),
           MapV(<< <<Sa, I(1)>>, <<StrV(<<98>>), ListV(<<I(1), I(5)>>)>> >>),
           ListV(<<ListV(<<>>), I(0), None>>),
           MapV(<< <<Sa, MapV(<< <<Sa, I(4)>> >>)>>, <<I(1), Sa>> >>) >>
PathPool == << <<>>, <<Coerce(Sa)>>, <<Part("list", Null, Null, Null, None)>>, <<Part("mol", Null, Null, Null, None)>>,
               <<Part("map", Null, Null, Null, None), Part("mol", Null, Null, Null, None)>>,
               <<Coerce(I(1))>>, <<Coerce(Sa), Coerce(Sa)>> >>

VARIABLES shape, l1, l2, l3, o1, o2, pi, di
vars == <<shape, l1, l2, l3, o1, o2, pi, di>>
Init == /\ shape \in 1..4 /\ l1 \in 1..NL /\ l2 \in 1..NL /\ l3 \in 1..NL
        /\ o1 \in 1..3 /\ o2 \in 1..3 /\ pi \in 1..Len(PathPool) /\ di \in 1..Len(Docs)
        /\ (pi * 4 + di + l1 * 28) % NShards = Shard
        /\ (shape = 1 => l2 = 1 /\ l3 = 1 /\ o1 = 1 /\ o2 = 1)
        /\ (shape = 2 => l3 = 1 /\ o2 = 1)
Next == UNCHANGED vars

A == LeafPool[l1]  B_ == LeafPool[l2]  C == LeafPool[l3]
Tree == CASE shape = 1 -> A
          [] shape = 2 -> Bin(OpSeq[o1], A, B_)
          [] shape = 3 -> Bin(OpSeq[o2], Bin(OpSeq[o1], A, B_), C)
          [] shape = 4 -> Bin(OpSeq[o1], A, Bin(OpSeq[o2], B_, C))
TheRule == RuleT(PathT(PathPool[pi], FALSE, "none", "none"), Tree, <<>>)
Doc == Docs[di]
T == RuleTest(TheRule, Doc, Doc, TRUE)

\* wrong variant of the wrapper mechanism: data_has_paths handed to the SECOND child
RECURSIVE LeafViewsWrong(_, _, _)
LeafViewsWrong(c, hasPaths, stripped) ==
  CASE c.t \in {"null", "leaf"} ->
         [views |-> <<IF stripped \/ hasPaths THEN "value" ELSE "pair">>, stripped |-> stripped \/ hasPaths]
    [] OTHER -> LET a == LeafViewsWrong(c.l, FALSE, stripped)
                    b == LeafViewsWrong(c.r, hasPaths, a.stripped)
                IN [views |-> a.views \o b.views, stripped |-> b.stripped]
EveryLeafSeesValueInv ==
  IF SecondChildStrips
  THEN LET r == LeafViewsWrong(Tree, TRUE, FALSE) IN \A j \in 1..Len(r.views) : r.views[j] = "value"
  ELSE EveryLeafSeesValue(Tree)
FailingHasReason ==
  \A j \in 1..Len(T.sel) :
     EvalTree(Tree, I(j - 1), T.sel[j][1]) = "F" => ReasonCount(Tree, I(j - 1), T.sel[j][1]) >= 1
PassingHasNoLeafReasonAtTop ==
  \A j \in 1..Len(T.sel) :
     (Tree.t = "leaf" /\ EvalTree(Tree, I(j - 1), T.sel[j][1]) = "T") => ReasonCount(Tree, I(j - 1), T.sel[j][1]) = 0
FailuresAreSubsequence ==
  /\ Len(T.fails) = Len(T.failidx)
  /\ \A j \in 1..Len(T.failidx) : T.fails[j] = T.sel[T.failidx[j]]
  /\ \A j \in 1..(Len(T.failidx) - 1) : T.failidx[j] < T.failidx[j + 1]
  /\ T.valid = (T.fails = <<>>)
  /\ (~T.tested) => (T.valid /\ T.sel = <<>>)
=============================================================================
