----------------------------- MODULE MC_Equality -----------------------------
(***************************************************************************)
(* Leg A for C14: on a TLA+ universe of conditions, parts and paths,       *)
(* term equality is an equivalence relation (all triples) and equal terms  *)
(* behave identically on every document of the universe.                   *)
(***************************************************************************)
EXTENDS Equality, TLC
CONSTANTS MolEqIgnoresKeyIndex, ArgsLoose, Shard, NShards
I(n) == IntV(n)
Sa == StrV(<<97>>)  Sb == StrV(<<98>>)
Lf(d, pre, fn, v) == Leaf(d, pre, fn, <<>>, KwValue(v))
A1 == Lf("value", "none", "equal_to", I(1))
A1b == Lf("value", "none", "equal_to", BoolV(TRUE))          \* == A1 under python equality of arguments, not under typed equality
Rg(lo, hi) == Leaf("value", "none", "in_range", <<>>, <<Kw("lower", NC("lower"), lo), Kw("upper", NC("upper"), hi)>>)
R1 == Rg(I(1), I(5))
R1f == Rg(V("float", 8, <<>>), I(5))       \* in_range(1.0, 5): range() refuses the bound - nothing is accepted
R1b == Rg(BoolV(TRUE), I(5))               \* in_range(True, 5): behaves as R1
A2 == Lf("value", "none", "less_than", I(2))
A3 == Lf("value", "dtype", "equal_to", TypeV(TInt))
A4 == Lf("value", "length", "equal_to", I(1))
K1 == KeyEq(Sa)  K2 == KeyEq(Sb)  X1 == IndexEq(I(0))  X2 == IndexEq(I(1))
Conds == <<Null, A1, A1b, A2, A3, A4, K1, K2, X1, X2, R1, R1f, R1b, Bin("or", R1, A3), Bin("or", A3, R1f), Bin("and", A1, A2), Bin("and", A2, A1), Bin("or", A1, A2),
           Bin("and", Bin("and", A1, A2), A3), Bin("and", A1, Bin("and", A2, A3)), Bin("and", A3, Bin("and", A2, A1)),
           Bin("xor", A3, A4), Bin("xor", A4, A3), Bin("and", K1, A2), Bin("and", A2, K1)>>
Parts == <<Part("map", K1, Null, Null, None), Part("map", K2, Null, Null, None), Part("map", K1, Null, Null, Sa),
           Part("list", X1, Null, Null, None), Part("list", X2, Null, Null, None), Part("map", Null, Null, Null, None),
           Part("list", Null, Null, Null, None), Part("mol", Null, Null, Null, None), Coerce(I(0)), Coerce(I(1)),
           Coerce(BoolV(TRUE)), Coerce(Sa), Part("mol", A2, X1, K1, None), Part("mol", A2, X2, K1, None),
           Part("mol", A2, X1, K2, None), Part("map", Bin("and", K1, A2), Null, Null, None),
           Part("map", Bin("and", A2, K1), Null, Null, None)>>
Docs == <<ListV(<<I(1), I(2), Sa>>), MapV(<< <<Sa, I(1)>>, <<Sb, I(5)>> >>), ListV(<<ListV(<<I(1)>>), I(0)>>),
          MapV(<< <<I(0), Sa>>, <<I(1), I(1)>>, <<Sa, ListV(<<I(1), I(3)>>)>> >>), ListV(<<BoolV(TRUE), I(1)>>)>>

VARIABLES kind, a, b, c
Init == /\ kind \in {"cond", "part"}
        /\ a \in 1..(IF kind = "cond" THEN Len(Conds) ELSE Len(Parts))
        /\ b \in 1..(IF kind = "cond" THEN Len(Conds) ELSE Len(Parts))
        /\ c \in 1..(IF kind = "cond" THEN Len(Conds) ELSE Len(Parts))
        /\ (a + b) % NShards = Shard
Next == UNCHANGED <<kind, a, b, c>>
U == IF kind = "cond" THEN Conds ELSE Parts
Eq(x, y) == IF kind = "cond" THEN TermEqG(x, y, ArgsLoose) ELSE PartEq(x, y, MolEqIgnoresKeyIndex)
Equivalence == /\ Eq(U[a], U[a])
               /\ Eq(U[a], U[b]) = Eq(U[b], U[a])
               /\ (Eq(U[a], U[b]) /\ Eq(U[b], U[c])) => Eq(U[a], U[c])
EqualImpliesSameBehaviour ==
  (c = 1 /\ Eq(U[a], U[b])) => \A d \in 1..Len(Docs) : SameBehaviour(kind, U[a], U[b], Docs[d])
\* the equality is not trivial: it separates objects that behave differently on some document
Separates == (c = 1 /\ a = 2 /\ b = 4) => ~Eq(U[a], U[b])
=============================================================================
