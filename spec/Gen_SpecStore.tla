---------------------------- MODULE Gen_SpecStore ----------------------------
EXTENDS SpecStore, Json
Emit == /\ (Len(hist) = 0) => PrintT(ToJson([kind |-> "pool", store |-> Store0]))
        /\ (Len(hist) = MaxCalls) => PrintT(ToJson([kind |-> "behaviour", hist |-> [k \in 1..Len(hist) |-> [call |-> hist[k].call]]]))
=============================================================================
