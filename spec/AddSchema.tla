------------------------------ MODULE AddSchema ------------------------------
(***************************************************************************)
(* The schema fragment of the valida state machine (C18).  Rule objects    *)
(* live in `rules` (identity = position), a schema is a sequence of rule   *)
(* ids in application order.                                               *)
(*   AddSchemaCall(S, T, R)   S.add_schema(T, root_path=R)                 *)
(* Intended: for each rule of T, in T's order, a NEW rule cell with path   *)
(* R / rule.path (concatenation of the parts; a non-empty concatenation is *)
(* never concrete and carries no modifiers) is appended to S; S is then    *)
(* stably re-sorted by path length.  T and every rule of T are unchanged.  *)
(* AliasRules = TRUE is the as-coded deviation: the path of T's own rule   *)
(* objects is rebound and those same objects are appended to S.            *)
(***************************************************************************)
EXTENDS Schema, TLC
CONSTANTS AliasRules, MaxAdds

I(n) == IntV(n)
Sa == StrV(<<97>>)  Sb == StrV(<<98>>)
S3 == StrV(<<51>>)
Lf(pre, fn, v) == Leaf("value", pre, fn, <<>>, KwValue(v))
PC(ps) == PathT(ps, TRUE, "none", "none")
PN(ps) == PathT(ps, FALSE, "none", "none")
AnyList == Part("list", Null, Null, Null, None)
AnyMap == Part("map", Null, Null, Null, None)
Rules0 == << RuleT(PC(<<>>), Lf("dtype", "equal_to", TypeV(TDict)), <<>>),                 \* S1
             RuleT(PC(<<Coerce(Sa)>>), Lf("dtype", "in_", ListV(<<TypeV(TDict), TypeV(TList)>>)), <<>>),  \* S1
             RuleT(PC(<<>>), Lf("length", "greater_than", I(0)), <<>>),                     \* T1: the empty-path rule
             RuleT(PC(<<Coerce(Sb)>>), Lf("none", "greater_than", I(2)), << <<TStr, "int">> >>),   \* T1 (cast)
             RuleT(PN(<<AnyList>>), Lf("dtype", "equal_to", TypeV(TInt)), <<>>),            \* T2
             RuleT(PC(<<Coerce(I(0))>>), Lf("none", "less_than", I(5)), <<>>),              \* S2
             \* T1: two more cast rules: (a, b) str -> int, and a rule whose fan-out part selects the mappings holding
             \* b = "3" - the value the other rule rewrites - and casts their `a`.  Casts are selected on the document as
             \* given, not on the copy being rewritten: the `a` is cast whatever the order of the rules.
             RuleT(PC(<<Coerce(Sa), Coerce(Sb)>>), Lf("none", "greater_than", I(2)), << <<TStr, "int">> >>),
             RuleT(PN(<<Part("map", Leaf("value", "none", "items_contain", <<>>, <<Kw("b", <<98>>, S3)>>), Null, Null, None),
                        Coerce(Sa)>>), Lf("none", "less_than", I(5)), << <<TStr, "int">> >>) >>
Schemas0 == << <<1, 2>>, <<6>>, <<3, 4, 7, 8>>, <<5>> >>  \* S1, S2, T1, T2
Roots == << PC(<<Coerce(Sa)>>), PC(<<Coerce(Sa), Coerce(Sb)>>), PN(<<AnyMap>>) >>
Docs == << MapV(<< <<Sa, MapV(<< <<Sb, S3>>, <<Sa, StrV(<<55>>)>> >>)>>, <<Sb, I(7)>> >>),
           MapV(<< <<Sa, ListV(<<I(1), Sa>>)>>, <<Sb, ListV(<<I(9)>>)>> >>),
           MapV(<< <<Sa, MapV(<< <<Sb, MapV(<< <<Sb, I(1)>> >>)>> >>)>> >>),
           ListV(<<I(1), MapV(<< <<Sb, I(9)>> >>)>>),
           MapV(<< <<Sa, MapV(<<>>)>>, <<Sb, MapV(<< <<Sb, S3>> >>)>> >>),
           MapV(<< <<Sb, I(0)>> >>) >>

VARIABLES rules, schemas, hist
vars == <<rules, schemas, hist>>
Init == rules = Rules0 /\ schemas = Schemas0 /\ hist = <<>>

Concat(R, p) == PathT(R.parts \o p.parts, R.parts \o p.parts = <<>>, "none", "none")
LenOf(rs, id) == Len(rs[id].path.parts)
\* stable sort of a sequence of rule ids by path length
RECURSIVE InsId(_, _, _)
InsId(sorted, x, rs) == IF sorted = <<>> THEN <<x>>
                        ELSE IF LenOf(rs, Head(sorted)) <= LenOf(rs, x) THEN <<Head(sorted)>> \o InsId(Tail(sorted), x, rs)
                        ELSE <<x>> \o sorted
RECURSIVE SortIds(_, _, _)
SortIds(acc, ids, rs) == IF ids = <<>> THEN acc ELSE SortIds(InsId(acc, Head(ids), rs), Tail(ids), rs)

AddSchemaCall(s, t, ri) ==
  /\ Len(hist) < MaxAdds /\ s # t
  /\ LET R == Roots[ri]  tids == schemas[t] IN
     IF AliasRules
     THEN LET rs2 == [j \in 1..Len(rules) |->
                        IF \E q \in 1..Len(tids) : tids[q] = j THEN [rules[j] EXCEPT !.path = Concat(R, rules[j].path)] ELSE rules[j]]
          IN /\ rules' = rs2
             /\ schemas' = [schemas EXCEPT ![s] = SortIds(<<>>, schemas[s] \o tids, rs2)]
     ELSE LET new == [q \in 1..Len(tids) |-> [rules[tids[q]] EXCEPT !.path = Concat(R, rules[tids[q]].path)]]
              rs2 == rules \o new
              nids == [q \in 1..Len(tids) |-> Len(rules) + q]
          IN /\ rules' = rs2
             /\ schemas' = [schemas EXCEPT ![s] = SortIds(<<>>, schemas[s] \o nids, rs2)]
  /\ hist' = Append(hist, [s |-> s, t |-> t, r |-> ri, nrules |-> Len(rules), tcopy |-> [q \in 1..Len(schemas[t]) |-> rules[schemas[t][q]]]])
Next == \E s \in 1..Len(schemas), t \in 1..Len(schemas), ri \in 1..Len(Roots) : AddSchemaCall(s, t, ri)
Spec == Init /\ [][Next]_vars

RulesOf(sch) == [q \in 1..Len(sch) |-> rules[sch[q]]]
(***************************************************************************)
(* Properties                                                              *)
(***************************************************************************)
\* no existing rule object is ever changed, and only the target schema's rule list is rebound
RulesImmutable == [][\A j \in 1..Len(rules) : rules'[j] = rules[j]]_vars
OnlyTargetChanges == [][\A k \in 1..Len(schemas) : (schemas'[k] # schemas[k]) => k = hist'[Len(hist')].s]_vars
\* every schema is sorted shortest path first
Sorted == \A k \in 1..Len(schemas) : \A q \in 1..(Len(schemas[k]) - 1) :
             LenOf(rules, schemas[k][q]) <= LenOf(rules, schemas[k][q + 1])
\* S judges a document as before plus T's judgement re-rooted: for the LAST addition, the verdict of the
\* new S is the conjunction of the old S's verdict and the verdicts of T's rules tested under the root
LastAddJudgement ==
  hist # <<>> =>
    LET h == hist[Len(hist)]
        newS == RulesOf(schemas[h.s])
        added == [q \in 1..Len(h.tcopy) |-> [h.tcopy[q] EXCEPT !.path = Concat(Roots[h.r], h.tcopy[q].path)]]
        oldIds == SelectSeq(schemas[h.s], LAMBDA id : id <= h.nrules)
    IN \A di \in 1..Len(Docs) :
         LET d == Docs[di]
             vNew == Validate(newS, d, Design)
             vOld == Validate([q \in 1..Len(oldIds) |-> rules[oldIds[q]]], d, Design)
             vAdd == Validate(added, d, Design)
         IN (vNew.u \/ vOld.u \/ vAdd.u) \/ AliasRules
            \/ (/\ Len(newS) = Len(oldIds) + Len(added)
                /\ (\A q \in 1..Len(added) : added[q].cast = <<>>) =>
                      (vNew.valid = (vOld.valid /\ vAdd.valid) /\ vNew.nfail = vOld.nfail + vAdd.nfail))
=============================================================================
