--------------------------------- MODULE Ext ---------------------------------
(***************************************************************************)
(* Behaviour of valida beyond the listed properties (DESIGN.md section 10):*)
(*   - path algebra: concatenation `/`, slicing, simplify and its round    *)
(*     trip, length;                                                       *)
(*   - Data.set / set_datum: a copy with one node replaced;                *)
(*   - validate_rule_paths: inference of the container type of every       *)
(*     prefix node from the parts that follow it, DuplicateRule,           *)
(*     IncompatibleRules;                                                  *)
(*   - the is_key_like / is_index_like / is_value_like predicates and      *)
(*     flatten;                                                            *)
(*   - the Data container view and the algebra of filter results           *)
(*     (DataApi.tla), truth tables and failure reasons (Reasons.tla).      *)
(***************************************************************************)
EXTENDS Unparse, Equality, Reasons, DataApi

\* p / q  (DataPath.__truediv__): parts concatenated; a non-empty result is never concrete, modifiers are dropped
ConcatPath(p, q) == PathT(p.parts \o q.parts, p.parts \o q.parts = <<>>, "none", "none")
\* p[a:b] (python slice on parts, 0-based, end exclusive, clipped)
Clip(n, x) == IF x < 0 THEN (IF n + x < 0 THEN 0 ELSE n + x) ELSE IF x > n THEN n ELSE x
SlicePath(p, a, b) == LET n == Len(p.parts)  lo == Clip(n, a)  hi == Clip(n, b)
                          ps == IF lo < hi THEN SubSeq(p.parts, lo + 1, hi) ELSE <<>> IN
                      PathT(ps, ps = <<>>, "none", "none")
\* simplify(): see Path.tla (SimplifyPart / Simplify) - also used by the documentation tree (Tree.tla)

(***************************************************************************)
(* validate_rule_paths                                                     *)
(***************************************************************************)
CT(part) == CASE part.pk = "map" -> "MAP" [] part.pk = "list" -> "LIST" [] OTHER -> "CONTAINER"
Prefix(path, k) == SubSeq(path.parts, 1, k)
\* the code groups the nodes by the printed form of the prefix (f"{partial_path!r}"), and a part prints its label only when
\* the label is truthy: prefixes that differ only in a falsy label ("" / 0 / False against none) are one node
ShownLabel(v) == IF Truthy(v) THEN v ELSE [k |-> "none", n |-> 0, xs |-> <<>>]
ShownPart(p) == [p EXCEPT !.label = ShownLabel(p.label)]
SamePrefix(a, b) == Len(a) = Len(b) /\ \A j \in 1..Len(a) : PartEq(ShownPart(a[j]), ShownPart(b[j]), FALSE)
\* the container types implied for the node at prefix `pre` by every rule path that extends it
TypesAt(paths, pre) ==
  {CT(paths[r].parts[Len(pre) + 1]) : r \in {r \in 1..Len(paths) :
        Len(paths[r].parts) > Len(pre) /\ SamePrefix(Prefix(paths[r], Len(pre)), pre)}}
Resolved(ts) == IF Cardinality(ts) = 1 THEN CHOOSE t \in ts : TRUE
                ELSE IF {"LIST", "MAP"} \subseteq ts THEN "INCOMPATIBLE"
                ELSE IF "LIST" \in ts THEN "LIST" ELSE "MAP"
HasDuplicate(paths) == \E a, b \in 1..Len(paths) : a < b /\ PathEq(paths[a], paths[b], FALSE)
HasIncompatible(paths) ==
  \E r \in 1..Len(paths) : \E k \in 0..(Len(paths[r].parts) - 1) :
     Resolved(TypesAt(paths, Prefix(paths[r], k))) = "INCOMPATIBLE"
=============================================================================
