CONSTANT Shard = 0
CONSTANT NShards = 1
INIT Init
NEXT Next
INVARIANT PartRoundTrip
INVARIANT PartsRoundTrip
INVARIANT SuffixOrders
INVARIANT RuleRoundTrip
CHECK_DEADLOCK FALSE
