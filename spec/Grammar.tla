------------------------------ MODULE Grammar -------------------------------
(***************************************************************************)
(* The spec language of valida: condition specs, part specs, path specs,   *)
(* path strings, rule specs, schema specs.  Specs are JSON/YAML-like       *)
(* values (PyVal records; strings are code point sequences, so the spec    *)
(* tokenises keys itself).  Mirrors ConditionLike.from_spec,               *)
(* ContainerValue.from_spec, DataPath.from_spec / from_part_specs /        *)
(* from_str, Rule.from_spec, Schema.from_json_like.                        *)
(*                                                                         *)
(* Every parser returns [st, t]:                                           *)
(*   st = "ok"  : the spec is well-formed and means term t                 *)
(*   st = "err" : the spec is definitely malformed: must be rejected with  *)
(*                one of the allowed spec errors (C19)                     *)
(*   st = "U"   : unconstrained (accepted or rejected with a spec error)   *)
(***************************************************************************)
EXTENDS Schema

Ok(t) == [st |-> "ok", t |-> t]
ErrR == [st |-> "err", t |-> Null]
UncR == [st |-> "U", t |-> Null]

Dot == 46
Toks(cs) == LET ps == SplitOn(cs, Dot) IN [j \in 1..Len(ps) |-> Lower(ps[j])]
C(s) == NC(s)
IsStr(v) == v.k = "str"
Falsy(v) == ~Truthy(v)

DatumOfTok(tk) == CASE tk = C("value") -> "value" [] tk = C("key") -> "key" [] tk = C("index") -> "index" [] OTHER -> ""
PreOfTok(tk) == CASE tk = C("type") -> "dtype" [] tk = C("dtype") -> "dtype"
                  [] tk = C("length") -> "length" [] tk = C("len") -> "length" [] OTHER -> ""
IsPreTok(tk) == PreOfTok(tk) # ""
\* callable token -> DSL callable name ("" = not a DSL callable).  Aliases: in, eq, lt, gt, lte, gte.
FnNames == <<"equal_to", "not_equal_to", "less_than", "greater_than", "less_than_or_equal_to",
             "greater_than_or_equal_to", "in_", "not_in", "in_range", "not_in_range", "equal_to_approx",
             "factor_of", "has_factor", "truthy", "falsy", "null", "is_instance",
             "keys_contain", "keys_contain_any_of", "keys_contain_all_of", "keys_contain_N_of",
             "keys_contain_at_least_N_of", "keys_contain_at_most_N_of", "keys_contain_one_of",
             "keys_contain_at_least_one_of", "keys_contain_at_most_one_of", "keys_equal_to",
             "keys_is_instance", "items_contain", "allowed_keys", "required_keys", "forbidden_keys">>
FnOfTok(tk) ==
  CASE tk = C("in") -> "in_" [] tk = C("eq") -> "equal_to" [] tk = C("lt") -> "less_than"
    [] tk = C("gt") -> "greater_than" [] tk = C("lte") -> "less_than_or_equal_to"
    [] tk = C("gte") -> "greater_than_or_equal_to"
    [] OTHER -> LET H == {j \in 1..Len(FnNames) : Lower(C(FnNames[j])) = tk} IN
                IF H = {} THEN "" ELSE FnNames[CHOOSE j \in H : TRUE]

\* type names (case-insensitive) and type objects -> type object
TypeOfName(cs) ==
  LET l == Lower(cs) IN
  CASE l = C("int") -> TInt [] l = C("float") -> TFloat [] l = C("str") -> TStr [] l = C("list") -> TList
    [] l = C("dict") -> TDict [] l = C("map") -> TDict [] l = C("bool") -> TBool [] l = C("path") -> TPath
    [] OTHER -> 0
TypeConv1(v) == IF v.k = "type" /\ v.n \in {TInt, TFloat, TStr, TList, TDict, TBool, TPath} THEN [ok |-> TRUE, v |-> v]
                ELSE IF v.k = "str" /\ TypeOfName(v.xs) # 0 THEN [ok |-> TRUE, v |-> TypeV(TypeOfName(v.xs))]
                ELSE [ok |-> FALSE, v |-> v]
TypeConv(v) == IF v.k = "list"
               THEN [ok |-> \A j \in 1..Len(v.xs) : TypeConv1(v.xs[j]).ok,
                     v |-> ListV([j \in 1..Len(v.xs) |-> TypeConv1(v.xs[j]).v])]
               ELSE TypeConv1(v)

RECURSIVE ParseCond(_), ParsePart(_), ParsePartList(_), TryPath(_)

(***************************************************************************)
(* Path specs:  {"path[.suffix[.suffix]]": [part specs]}                    *)
(*  TryPath result: [kind, v] kind = "path" (v = dpath value), "literal"   *)
(*  (escaped: v = the mapping with \path un-escaped), "no" (not a path     *)
(*  spec), "err" (a path spec, but malformed), "U".                        *)
(***************************************************************************)
EscCode == C("esc_path")
PathCode == C("path")
\* keys are read in any letter case, escapes too: "\Path" is the escaped literal key "Path"
HasEsc(cs) == Len(cs) >= Len(EscCode) /\ SubSeqOf(EscCode, Lower(cs))
RECURSIVE ReplaceEsc(_)      \* every "\\path" (any case) loses its backslash, the letters stay as written
ReplaceEsc(cs) ==
  IF Len(cs) < Len(EscCode) THEN cs
  ELSE IF Lower(SubSeq(cs, 1, Len(EscCode))) = EscCode
       THEN SubSeq(cs, 2, Len(EscCode)) \o ReplaceEsc(SubSeq(cs, Len(EscCode) + 1, Len(cs)))
  ELSE <<Head(cs)>> \o ReplaceEsc(Tail(cs))
ModOfTok(tk) ==
  CASE tk = C("type") -> "dtype" [] tk = C("dtype") -> "dtype" [] tk = C("len") -> "length" [] tk = C("length") -> "length"
    [] tk = C("map_keys") -> "map_keys" [] tk = C("map_values") -> "map_values"
    [] tk = C("first") -> "first" [] tk = C("last") -> "last" [] tk = C("single") -> "single"
    [] tk = C("all") -> "all" [] tk = C("any") -> "any" [] OTHER -> ""
IsDtMod(m) == m \in {"dtype", "length", "map_keys", "map_values"}
IsMtMod(m) == m \in {"first", "last", "single", "all", "any"}
\* apply suffix modifiers left to right: [st, p]
RECURSIVE ApplyMods(_, _)
ApplyMods(p, ms) ==
  IF ms = <<>> THEN [st |-> "ok", p |-> p]
  ELSE LET m == Head(ms) IN
       IF m = "" THEN [st |-> "no", p |-> p]                       \* unknown suffix: MalformedDataPathSpec
       ELSE IF IsDtMod(m) THEN (IF p.dt # "none" THEN [st |-> "err", p |-> p]
                                ELSE ApplyMods([p EXCEPT !.dt = m], Tail(ms)))
       ELSE IF p.mt # "none" \/ p.concrete THEN [st |-> "err", p |-> p]
       ELSE ApplyMods([p EXCEPT !.mt = m], Tail(ms))

TryPath(v) ==
  IF v.k # "map" THEN [kind |-> "no", v |-> v]
  ELSE IF v.xs = <<>> THEN [kind |-> "no", v |-> v]
  ELSE IF \E j \in 1..Len(v.xs) : ~IsStr(v.xs[j][1]) THEN [kind |-> "U", v |-> v]
  ELSE IF \E j \in 1..Len(v.xs) : HasEsc(v.xs[j][1].xs)
       THEN [kind |-> "literal", v |-> MapV([j \in 1..Len(v.xs) |-> <<StrV(ReplaceEsc(v.xs[j][1].xs)), v.xs[j][2]>>])]
  ELSE IF Len(v.xs) > 1 THEN [kind |-> "no", v |-> v]
  ELSE LET tk == Toks(v.xs[1][1].xs)  val == v.xs[1][2] IN
       IF tk[1] # PathCode \/ Len(tk) > 3 THEN [kind |-> "no", v |-> v]
       ELSE IF ~IsSeqLike(val) THEN [kind |-> IF val.k \in {"str", "map"} THEN "U" ELSE "err", v |-> v]
       ELSE LET ps == ParsePartList(val.xs) IN
            IF ps.st # "ok" THEN [kind |-> ps.st, v |-> v]
            ELSE LET base == PathT(ps.t, \A j \in 1..Len(val.xs) : val.xs[j].k # "map", "none", "none")
                     am == ApplyMods(base, [j \in 1..(Len(tk) - 1) |-> ModOfTok(tk[j + 1])])
                 IN IF am.st = "ok" THEN [kind |-> "path", v |-> V("dpath", 0, <<am.p>>)]
                    ELSE [kind |-> am.st, v |-> v]

\* DataPath detection in a condition argument (top level, list items, mapping values)
ArgConv(val) ==
  LET one(x) == LET r == TryPath(x) IN
                CASE r.kind = "path" -> [st |-> "ok", v |-> r.v]
                  [] r.kind = "literal" -> [st |-> "ok", v |-> r.v]
                  [] r.kind = "no" -> [st |-> "ok", v |-> x]
                  [] OTHER -> [st |-> r.kind, v |-> x]
  IN IF val.k = "map" THEN
          LET top == TryPath(val) IN
          IF top.kind \in {"path", "literal"} THEN [st |-> "ok", v |-> top.v]
          ELSE IF top.kind \in {"err", "U"} THEN [st |-> top.kind, v |-> val]
          ELSE LET rs == [j \in 1..Len(val.xs) |-> one(val.xs[j][2])] IN
               IF \E j \in 1..Len(rs) : rs[j].st = "err" THEN [st |-> "err", v |-> val]
               ELSE IF \E j \in 1..Len(rs) : rs[j].st = "U" THEN [st |-> "U", v |-> val]
               ELSE [st |-> "ok", v |-> MapV([j \in 1..Len(val.xs) |->
                        <<val.xs[j][1], rs[j].v>>])]
     ELSE IF IsSeqLike(val) THEN
          LET rs == [j \in 1..Len(val.xs) |-> one(val.xs[j])] IN
          IF \E j \in 1..Len(rs) : rs[j].st = "err" THEN [st |-> "err", v |-> val]
          ELSE IF \E j \in 1..Len(rs) : rs[j].st = "U" THEN [st |-> "U", v |-> val]
          ELSE [st |-> "ok", v |-> V(val.k, 0, [j \in 1..Len(val.xs) |-> rs[j].v])]
     ELSE [st |-> "ok", v |-> val]

(***************************************************************************)
(* Condition specs                                                         *)
(***************************************************************************)
\* signature class of the DSL METHOD (what from_spec dispatches on)
MethodKind(fn) == CASE SigKind(fn) = "none" -> "none"
                    [] SigKind(fn) = "varpos" -> "varpos"
                    [] SigKind(fn) = "varkw" -> "varkw"
                    [] Len(Params(fn)) = 1 -> "one"
                    [] OTHER -> "many"
KwOfMap(m) == [j \in 1..Len(m.xs) |-> Kw("", m.xs[j][1].xs, m.xs[j][2])]
StrKeys(m) == \A j \in 1..Len(m.xs) : IsStr(m.xs[j][1])

LeafOf(datum, pre, fn, val) ==
  LET mk == MethodKind(fn)
      mkLeaf(st) == IF st.ok THEN Ok(Leaf(datum, pre, fn, st.args, st.kw)) ELSE ErrR
  IN CASE mk = "none" -> mkLeaf(Store(fn, <<>>, <<>>))
       [] mk = "one" -> mkLeaf(Store(fn, <<val>>, <<>>))
       [] mk = "many" -> IF val.k = "map" THEN (IF StrKeys(val) THEN mkLeaf(Store(fn, <<>>, KwOfMap(val))) ELSE ErrR)
                         ELSE IF IsSeqLike(val) THEN mkLeaf(Store(fn, val.xs, <<>>))
                         ELSE ErrR
       [] mk = "varpos" -> IF val.k = "list" THEN mkLeaf(Store(fn, val.xs, <<>>)) ELSE ErrR
       [] mk = "varkw" -> IF val.k = "map" THEN (IF StrKeys(val) THEN mkLeaf(Store(fn, <<>>, KwOfMap(val))) ELSE ErrR)
                          ELSE ErrR

RECURSIVE FoldSpec(_, _, _)
FoldSpec(op, items, acc) ==      \* left fold from null: cls(cls(cls(null, o1), o2), o3)
  IF items = <<>> THEN Ok(acc)
  ELSE LET r == ParseCond(Head(items)) IN
       IF r.st # "ok" THEN r
       ELSE LET n == BinN(op, acc, r.t) IN
            IF n.t \in Ops /\ acc.t # "null" /\ r.t.t # "null" /\ MixesKeyIndex(n) THEN ErrR
            ELSE FoldSpec(op, Tail(items), n)

ParseCond(sp) ==
  IF Falsy(sp) THEN Ok(Null)
  ELSE IF sp.k # "map" THEN ErrR
  ELSE IF Len(sp.xs) > 1 THEN ErrR
  ELSE LET key == sp.xs[1][1]  val == sp.xs[1][2] IN
  IF ~IsStr(key) THEN ErrR
  ELSE IF key.xs \in {C("and"), C("or"), C("xor")} THEN
       (IF ~IsSeqLike(val) THEN ErrR
        ELSE FoldSpec(CASE key.xs = C("and") -> "and" [] key.xs = C("or") -> "or" [] OTHER -> "xor", val.xs, Null))
  ELSE LET tk == Toks(key.xs)  datum == DatumOfTok(tk[1]) IN
  IF datum = "" THEN (IF Lower(key.xs) \in {C("and"), C("or"), C("xor")} THEN UncR ELSE ErrR)
  ELSE IF Len(tk) \notin {2, 3} \/ (Len(tk) = 2 /\ IsPreTok(tk[2])) THEN ErrR
  ELSE LET pre == IF Len(tk) = 3 THEN PreOfTok(tk[2]) ELSE "none"
           fn == FnOfTok(tk[Len(tk)])
       IN
  IF pre = "" \/ ~ClassExists(datum, pre) THEN ErrR
  ELSE IF fn = "" \/ fn \notin FnsOf(datum, pre) THEN ErrR
  ELSE LET needTypes == pre = "dtype" \/ fn \in {"is_instance", "keys_is_instance"}
           tc == IF needTypes THEN TypeConv(val) ELSE [ok |-> TRUE, v |-> val]
       IN
  IF ~tc.ok THEN (IF pre = "dtype" /\ fn \notin {"equal_to", "not_equal_to", "in_", "not_in", "is_instance"} THEN UncR ELSE ErrR)
  ELSE LET ac == ArgConv(tc.v) IN
  IF ac.st = "err" THEN ErrR
  ELSE IF ac.st = "U" THEN UncR
  ELSE LeafOf(datum, pre, fn, ac.v)

(***************************************************************************)
(* Part specs (ContainerValue.from_spec).  Keys are exact-case.  The order *)
(* in which the components are and-combined follows the code.              *)
(***************************************************************************)
MGet(m, cs) == LET H == {j \in 1..Len(m.xs) : IsStr(m.xs[j][1]) /\ m.xs[j][1].xs = cs} IN
               IF H = {} THEN [has |-> FALSE, v |-> None] ELSE [has |-> TRUE, v |-> m.xs[CHOOSE j \in H : TRUE][2]]
\* entries whose key starts with prefix, in mapping order
ShortIdx(m, prefix) == SelectSeq([j \in 1..Len(m.xs) |-> j], LAMBDA j : IsStr(m.xs[j][1]) /\ StartsWith(m.xs[j][1].xs, prefix))
KnownPartKeys == {C("type"), C("condition"), C("list_condition"), C("map_condition"), C("value"), C("key"),
                  C("index"), C("label")}

\* and-combine `acc` with the parsed specs `sps` (sequence of spec values), each required to be of `kind`
RECURSIVE AndSpecs(_, _, _)
AndSpecs(acc, sps, kind) ==
  IF sps = <<>> THEN Ok(acc)
  ELSE LET r == ParseCond(Head(sps)) IN
       IF r.st # "ok" THEN r
       ELSE IF kind = "value" /\ ~(r.t.t # "null" /\ IsValueLike(r.t)) THEN ErrR
       ELSE IF kind = "key" /\ ~(r.t.t # "null" /\ IsKeyLike(r.t)) THEN ErrR
       ELSE IF kind = "index" /\ ~(r.t.t # "null" /\ IsIndexLike(r.t)) THEN ErrR
       ELSE LET n == AndN(acc, r.t) IN
            IF n.t = "and" /\ acc.t # "null" /\ r.t.t # "null" /\ MixesKeyIndex(n) THEN ErrR
            ELSE AndSpecs(n, Tail(sps), kind)
Chain(r, sps, kind) == IF r.st # "ok" THEN r ELSE AndSpecs(r.t, sps, kind)
ShortSpecs(m, idx) == [q \in 1..Len(idx) |-> MapV(<< m.xs[idx[q]] >>)]
OptSpec(g) == IF g.has /\ g.v.k # "none" THEN <<g.v>> ELSE <<>>

ParsePart(sp) ==
  IF sp.k # "map" THEN ErrR
  ELSE IF \E j \in 1..Len(sp.xs) : ~IsStr(sp.xs[j][1]) THEN ErrR
  ELSE
  LET ty == MGet(sp, C("type"))
      pk == IF ~ty.has THEN "mol"
            ELSE IF ~IsStr(ty.v) THEN ""
            ELSE CASE ty.v.xs = C("map_value") -> "map" [] ty.v.xs = C("list_value") -> "list"
                   [] ty.v.xs = C("map_or_list_value") -> "mol" [] OTHER -> ""
      cnd == Chain(Ok(Null), OptSpec(MGet(sp, C("condition"))), "any")
      lc0 == Chain(Ok(Null), OptSpec(MGet(sp, C("list_condition"))), "any")
      mc0 == Chain(Ok(Null), OptSpec(MGet(sp, C("map_condition"))), "any")
      vIdx == ShortIdx(sp, C("value") \o <<Dot>>)
      kIdx == ShortIdx(sp, C("key") \o <<Dot>>)
      iIdx == ShortIdx(sp, C("index") \o <<Dot>>)
      c1 == Chain(cnd, OptSpec(MGet(sp, C("value"))), "value")
      c2 == Chain(c1, ShortSpecs(sp, vIdx), "anyshort")
      unknown == \E j \in 1..Len(sp.xs) :
                    LET kx == sp.xs[j][1].xs IN
                    /\ kx \notin KnownPartKeys
                    /\ ~StartsWith(kx, C("value") \o <<Dot>>)
                    /\ ~(pk \in {"map", "mol"} /\ StartsWith(kx, C("key") \o <<Dot>>))
                    /\ ~(pk \in {"list", "mol"} /\ StartsWith(kx, C("index") \o <<Dot>>))
      keyOnList == pk = "list" /\ MGet(sp, C("key")).has
      indexOnMap == pk = "map" /\ MGet(sp, C("index")).has
      lab == MGet(sp, C("label"))
      label == IF lab.has THEN lab.v ELSE None
      extraConds == pk # "mol" /\ (MGet(sp, C("list_condition")).has \/ MGet(sp, C("map_condition")).has)
  IN
  IF pk = "" THEN ErrR
  ELSE IF unknown \/ keyOnList \/ indexOnMap THEN
         \* still an error if an earlier component is malformed; either way rejected
         ErrR
  ELSE IF pk = "map" THEN
         LET c3 == Chain(c2, ShortSpecs(sp, kIdx), "anyshort")
             c4 == Chain(c3, OptSpec(MGet(sp, C("key"))), "key")
         IN IF c4.st # "ok" THEN c4 ELSE IF extraConds THEN UncR ELSE Ok(Part("map", c4.t, Null, Null, label))
  ELSE IF pk = "list" THEN
         LET c3 == Chain(c2, ShortSpecs(sp, iIdx), "anyshort")
             c4 == Chain(c3, OptSpec(MGet(sp, C("index"))), "index")
         IN IF c4.st # "ok" THEN c4 ELSE IF extraConds THEN UncR ELSE Ok(Part("list", c4.t, Null, Null, label))
  ELSE LET l1 == Chain(lc0, ShortSpecs(sp, iIdx), "anyshort")
           m1 == Chain(mc0, ShortSpecs(sp, kIdx), "anyshort")
           l2 == Chain(l1, OptSpec(MGet(sp, C("index"))), "index")
           m2 == Chain(m1, OptSpec(MGet(sp, C("key"))), "key")
       IN IF c2.st # "ok" THEN c2 ELSE IF l2.st # "ok" THEN l2 ELSE IF m2.st # "ok" THEN m2
          ELSE Ok(Part("mol", c2.t, l2.t, m2.t, label))

\* a list of part specs: primitives are coerced, mappings parsed
ParsePartList(xs) ==
  LET rs == [j \in 1..Len(xs) |->
               IF xs[j].k = "map" THEN ParsePart(xs[j])
               ELSE IF IsPrim(xs[j]) THEN Ok(Coerce(xs[j])) ELSE ErrR]
  IN IF \E j \in 1..Len(rs) : rs[j].st = "err" THEN [st |-> "err", t |-> <<>>]
     ELSE IF \E j \in 1..Len(rs) : rs[j].st = "U" THEN [st |-> "U", t |-> <<>>]
     ELSE [st |-> "ok", t |-> [j \in 1..Len(rs) |-> rs[j].t]]

\* DataPath.from_part_specs(*specs)
ParsePathParts(xs) ==
  LET ps == ParsePartList(xs) IN
  IF ps.st # "ok" THEN [st |-> ps.st, t |-> PathT(<<>>, TRUE, "none", "none")]
  ELSE [st |-> "ok", t |-> PathT(ps.t, \A j \in 1..Len(xs) : xs[j].k # "map", "none", "none")]
\* DataPath.from_spec(spec)
ParsePath(sp) ==
  LET r == TryPath(sp) IN
  CASE r.kind = "path" -> [st |-> "ok", t |-> r.v.xs[1]]
    [] r.kind = "U" -> [st |-> "U", t |-> PathT(<<>>, TRUE, "none", "none")]
    [] r.kind = "literal" -> [st |-> "U", t |-> PathT(<<>>, TRUE, "none", "none")]
    [] OTHER -> [st |-> "err", t |-> PathT(<<>>, TRUE, "none", "none")]

(***************************************************************************)
(* DataPath.from_str(s, delimiter)                                         *)
(***************************************************************************)
\* simple decimal floats "d+.d+" on the 1/8 grid; anything else float-looking is unconstrained
IsDigits(cs) == cs # <<>> /\ \A j \in 1..Len(cs) : IsDigit(cs[j])
FracEighths(fr) ==      \* value of 0.<fr> in eighths, or -1 when off the grid
  LET stripped == fr IN
  CASE fr = <<48>> -> 0 [] fr = <<53>> -> 4 [] fr = <<50, 53>> -> 2 [] fr = <<55, 53>> -> 6
    [] fr = <<49, 50, 53>> -> 1 [] fr = <<51, 55, 53>> -> 3 [] fr = <<54, 50, 53>> -> 5 [] fr = <<56, 55, 53>> -> 7
    [] OTHER -> -1
ParseFloatTok(cs) ==
  LET neg == cs # <<>> /\ Head(cs) = 45
      body == IF neg THEN Tail(cs) ELSE cs
      ps == SplitOn(body, Dot)
  IN IF Len(ps) = 2 /\ IsDigits(ps[1]) /\ IsDigits(ps[2]) /\ Len(ps[1]) <= 6 /\ FracEighths(ps[2]) >= 0
     THEN [kind |-> "float", n |-> (IF neg THEN -1 ELSE 1) * (8 * DigitsVal(ps[1], 0) + FracEighths(ps[2]))]
     ELSE IF \E j \in 1..Len(cs) : ~(IsDigit(cs[j]) \/ cs[j] \in {43, 45, 46, 95, 101, 69, 32})
          THEN (IF Lower(Strip(cs)) \in {<<105, 110, 102>>, <<110, 97, 110>>, <<45, 105, 110, 102>>, <<43, 105, 110, 102>>,
                                         <<105, 110, 102, 105, 110, 105, 116, 121>>} THEN [kind |-> "U", n |-> 0]
                ELSE [kind |-> "str", n |-> 0])
     ELSE IF cs = <<>> THEN [kind |-> "str", n |-> 0]
     ELSE [kind |-> "U", n |-> 0]
StrPart(tokv) ==
  LET pi == ParseInt(tokv.xs) IN
  IF pi.ok THEN [st |-> "ok", t |-> Part("mol", Null, IndexEq(IntV(pi.n)),
                     Leaf("key", "none", "in_", <<>>, KwValue(V("tuple", 0, <<tokv, IntV(pi.n)>>))), None)]
  ELSE LET f == ParseFloatTok(tokv.xs) IN
       CASE f.kind = "float" -> [st |-> "ok", t |-> Part("map", Leaf("key", "none", "in_", <<>>,
                                      KwValue(V("tuple", 0, <<tokv, V("float", f.n, <<>>)>>))), Null, Null, None)]
         [] f.kind = "str" -> [st |-> "ok", t |-> Coerce(tokv)]
         [] OTHER -> [st |-> "U", t |-> Coerce(tokv)]
FromStr(s, delim) ==
  LET toks == IF s = <<>> THEN <<>> ELSE SplitOn(s, delim)
      rs == [j \in 1..Len(toks) |-> StrPart(StrV(toks[j]))]
  IN IF \E j \in 1..Len(rs) : rs[j].st = "U" THEN [st |-> "U", t |-> PathT(<<>>, TRUE, "none", "none")]
     ELSE [st |-> "ok", t |-> PathT([j \in 1..Len(rs) |-> rs[j].t],
                                    \A j \in 1..Len(rs) : ~ParseInt(toks[j]).ok /\ ParseFloatTok(toks[j]).kind = "str",
                                    "none", "none")]

(***************************************************************************)
(* Rule and schema specs                                                   *)
(***************************************************************************)
CastTypeOfName(v) == IF ~IsStr(v) THEN 0
                     ELSE CASE v.xs = C("str") -> TStr [] v.xs = C("bool") -> TBool [] v.xs = C("int") -> TInt [] OTHER -> 0
ParseCast(cv) ==
  IF cv.k = "none" \/ (cv.k = "map" /\ cv.xs = <<>>) THEN [st |-> "ok", t |-> <<>>]
  ELSE IF cv.k # "map" THEN (IF Falsy(cv) THEN [st |-> "ok", t |-> <<>>] ELSE [st |-> "err", t |-> <<>>])
  ELSE LET one(j) == LET f == CastTypeOfName(cv.xs[j][1])  g == CastTypeOfName(cv.xs[j][2]) IN
                     IF f = TStr /\ g = TBool THEN <<TStr, "bool">> ELSE IF f = TStr /\ g = TInt THEN <<TStr, "int">>
                     ELSE <<0, "">>
       IN IF \E j \in 1..Len(cv.xs) : one(j)[1] = 0 THEN [st |-> "err", t |-> <<>>]
          ELSE [st |-> "ok", t |-> [j \in 1..Len(cv.xs) |-> one(j)]]

StripV(v) == IF IsStr(v) THEN StrV(Strip(v.xs)) ELSE v
DescKey == StrV(C("description"))
ExKey == StrV(C("examples"))
\* doc normalisation: none | {"description": [..stripped], "examples": [..stripped]}
NormDoc(dv) ==
  IF Falsy(dv) THEN [st |-> "ok", v |-> dv]
  ELSE IF IsStr(dv) THEN [st |-> "ok", v |-> MapV(<< <<DescKey, ListV(<<StripV(dv)>>)>>, <<ExKey, ListV(<<>>)>> >>)]
  ELSE IF dv.k = "list" THEN
       (IF \A j \in 1..Len(dv.xs) : IsStr(dv.xs[j])
        THEN [st |-> "ok", v |-> MapV(<< <<DescKey, ListV([j \in 1..Len(dv.xs) |-> StripV(dv.xs[j])])>>, <<ExKey, ListV(<<>>)>> >>)]
        ELSE [st |-> "U", v |-> dv])
  ELSE IF dv.k = "map" THEN
       LET de == MGet(dv, C("description"))  ex == MGet(dv, C("examples"))
           dl == IF ~de.has THEN ListV(<<>>) ELSE IF IsStr(de.v) THEN ListV(<<StripV(de.v)>>) ELSE de.v
           el == IF ~ex.has THEN ListV(<<>>) ELSE ex.v
           okl(l) == l.k = "list" /\ \A j \in 1..Len(l.xs) : IsStr(l.xs[j])
       IN IF okl(dl) /\ okl(el) /\ \A j \in 1..Len(dv.xs) : IsStr(dv.xs[j][1]) /\ dv.xs[j][1].xs \in {C("description"), C("examples")}
          THEN [st |-> "ok", v |-> MapV(<< <<DescKey, ListV([j \in 1..Len(dl.xs) |-> StripV(dl.xs[j])])>>,
                                          <<ExKey, ListV([j \in 1..Len(el.xs) |-> StripV(el.xs[j])])>> >>)]
          ELSE [st |-> "U", v |-> dv]
  ELSE [st |-> "U", v |-> dv]

\* [st, t (rule term), doc]
ParseRule(sp) ==
  LET bad == [st |-> "err", t |-> RuleT(PathT(<<>>, TRUE, "none", "none"), Null, <<>>), doc |-> None]
      unc == [bad EXCEPT !.st = "U"]
  IN
  IF sp.k # "map" THEN bad
  ELSE LET pa == MGet(sp, C("path"))  co == MGet(sp, C("condition"))  ca == MGet(sp, C("cast"))  dc == MGet(sp, C("doc")) IN
  IF ~pa.has \/ ~co.has THEN bad
  ELSE IF ~IsSeqLike(pa.v) THEN (IF pa.v.k \in {"str", "map"} THEN unc ELSE bad)
  ELSE LET p == ParsePathParts(pa.v.xs)  c == ParseCond(co.v)
           cs == IF ca.has THEN ParseCast(ca.v) ELSE [st |-> "ok", t |-> <<>>]
           d == IF dc.has THEN NormDoc(dc.v) ELSE [st |-> "ok", v |-> None]
       IN IF p.st = "err" \/ c.st = "err" \/ cs.st = "err" THEN bad
          ELSE IF p.st = "U" \/ c.st = "U" \/ d.st = "U" THEN unc
          ELSE [st |-> "ok", t |-> RuleT(p.t, c.t, cs.t), doc |-> d.v]

\* Schema.from_json_like(list of rule specs) / from_yaml({"rules": [...]}): rules in GIVEN order
ParseRules(xs) ==
  LET rs == [j \in 1..Len(xs) |-> ParseRule(xs[j])] IN
  IF \E j \in 1..Len(rs) : rs[j].st = "err" THEN [st |-> "err", t |-> <<>>, docs |-> <<>>]
  ELSE IF \E j \in 1..Len(rs) : rs[j].st = "U" THEN [st |-> "U", t |-> <<>>, docs |-> <<>>]
  ELSE [st |-> "ok", t |-> [j \in 1..Len(rs) |-> rs[j].t], docs |-> [j \in 1..Len(rs) |-> rs[j].doc]]
=============================================================================
