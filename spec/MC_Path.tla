------------------------------- MODULE MC_Path -------------------------------
(***************************************************************************)
(* Leg A for C03 / C04: on a TLA+-enumerated universe of (path, document)  *)
(* pairs the frontier MECHANISM of resolution equals the declarative walk, *)
(* every reported concrete path is truthful, paths are pairwise distinct,  *)
(* and the modifier laws hold.                                             *)
(***************************************************************************)
EXTENDS Path, TLC
CONSTANTS MaxLen, WithMods, Shard, NShards

I(n) == IntV(n)
Sa == StrV(<<97>>)
Sb == StrV(<<98>>)
KwV(v) == KwValue(v)
PartPool ==
  << Coerce(Sa), Coerce(I(0)), Coerce(I(1)), Coerce(V("float", 12, <<>>)),
     Part("map", Null, Null, Null, None), Part("list", Null, Null, Null, None), Part("mol", Null, Null, Null, None),
     Part("map", Leaf("key", "none", "in_", <<>>, KwV(ListV(<<Sa, I(1)>>))), Null, Null, None),
     Part("list", Leaf("index", "none", "greater_than", <<>>, KwV(I(0))), Null, Null, None),
     Part("map", Leaf("value", "dtype", "equal_to", <<>>, KwV(TypeV(TInt))), Null, Null, None),
     Part("mol", Leaf("value", "none", "greater_than", <<>>, KwV(I(0))),
                 Leaf("index", "none", "equal_to", <<>>, KwV(I(1))), KeyEq(Sa), None),
     Part("list", Bin("or", Leaf("value", "none", "less_than", <<>>, KwV(I(1))),
                            Leaf("value", "length", "equal_to", <<>>, KwV(I(0)))), Null, Null, None) >>
NP == Len(PartPool)
Concrete(ps) == \A j \in 1..Len(ps) : ps[j] \in 1..4
PathsIdx == UNION {[1..n -> 1..NP] : n \in 0..MaxLen}

\* Universes are SEQUENCES indexed by state variables: TLC must never compare values of
\* different kinds (a set of heterogeneous records makes it compare a code point with a record).
L0 == <<I(1), I(0), Sa, ListV(<<>>)>>
K1 == I(1)
Pr(S, k) == <<S[((k - 1) \div Len(S)) + 1], S[((k - 1) % Len(S)) + 1]>>
ContOver(S) ==
  LET n == Len(S) IN
     [i \in 1..n |-> ListV(<<S[i]>>)]
  \o [k \in 1..(n * n) |-> ListV(Pr(S, k))]
  \o [i \in 1..n |-> MapV(<< <<Sa, S[i]>> >>)]
  \o [i \in 1..n |-> MapV(<< <<K1, S[i]>> >>)]
  \o [k \in 1..(n * n) |-> MapV(<< <<Sa, Pr(S, k)[1]>>, <<K1, Pr(S, k)[2]>> >>)]
L1 == L0 \o ContOver(L0)
DocU == ContOver(L1)

VARIABLES pidx, di, dt, mt
doc == DocU[di]
vars == <<pidx, di, dt, mt>>
Init == /\ pidx \in PathsIdx /\ di \in {j \in 1..Len(DocU) : j % NShards = Shard}
        /\ dt \in (IF WithMods THEN {"none", "dtype", "length", "map_keys", "map_values"} ELSE {"none"})
        /\ mt \in (IF WithMods THEN {"none", "first", "last", "single", "all"} ELSE {"none"})
Next == UNCHANGED vars

Parts == [j \in 1..Len(pidx) |-> PartPool[pidx[j]]]
IsConcrete == Concrete(pidx)
P(d, m) == PathT(Parts, IsConcrete, d, m)

MechEqualsWalk == WalkU(doc, Parts) \/ ResolveMech(Parts, doc) = ResolveDecl(Parts, doc)
TruthfulInv == WalkU(doc, Parts) \/
               LET R == ResolveDecl(Parts, doc) IN \A j \in 1..Len(R) : Truthful(doc, R[j][1], R[j][2])
DistinctInv == WalkU(doc, Parts) \/
               LET R == ResolveDecl(Parts, doc) IN \A j, m \in 1..Len(R) : j # m => R[j][2] # R[m][2]
\* a concrete path selects at most one node
ConcreteAtMostOne == (IsConcrete /\ ~WalkU(doc, Parts)) => Len(ResolveDecl(Parts, doc)) <= 1
\* document order: the selection is sorted by position path
PosPath(d, p) == IF p = <<>> THEN <<>> ELSE
                 LET ks == Keys(d)  j == CHOOSE j \in 1..Len(ks) : PyEq(ks[j], p[1]) IN j
RECURSIVE PosSeq(_, _)
PosSeq(d, p) == IF p = <<>> THEN <<>>
                ELSE LET ks == Keys(d)  j == CHOOSE j \in 1..Len(ks) : PyEq(ks[j], p[1])
                     IN <<j>> \o PosSeq(Vals(d)[j], Tail(p))
RECURSIVE LexLt(_, _)
LexLt(a, b) == IF a = <<>> \/ b = <<>> THEN FALSE
               ELSE IF a[1] # b[1] THEN a[1] < b[1] ELSE LexLt(Tail(a), Tail(b))
DocumentOrder == WalkU(doc, Parts) \/
                 LET R == ResolveDecl(Parts, doc) IN
                 \A j \in 1..(Len(R) - 1) : LexLt(PosSeq(doc, R[j][2]), PosSeq(doc, R[j + 1][2]))

\* modifier laws relating the answers of get_data
ModLaws ==
  LET base == GetData(P("none", "none"), doc, FALSE)
      allv == GetData(P(dt, IF IsConcrete THEN "none" ELSE "all"), doc, FALSE)
      x == GetData(P(dt, mt), doc, FALSE)
      xp == GetData(P(dt, mt), doc, TRUE)
  IN (x.status # "U" /\ allv.status # "U" /\ ~(IsConcrete /\ mt # "none") /\ Parts # <<>>) =>
     /\ (mt = "first" /\ allv.v.xs # <<>>) => Same(x.v, allv.v.xs[1])
     /\ (mt = "last" /\ allv.v.xs # <<>>) => Same(x.v, allv.v.xs[Len(allv.v.xs)])
     /\ (mt = "single" /\ Len(allv.v.xs) = 1) => Same(x.v, allv.v.xs[1])
     /\ (mt = "single" /\ Len(allv.v.xs) > 1) => x.status = "raised:ValueError"
     /\ (mt \in {"none", "all"} /\ ~IsConcrete) => Same(x.v, allv.v)
     /\ x.status = xp.status
=============================================================================
