CONSTANT CatchAll = FALSE
INIT Init
NEXT Next
INVARIANT NeverAborts
CHECK_DEADLOCK FALSE
