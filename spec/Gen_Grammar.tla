------------------------------ MODULE Gen_Grammar ------------------------------
(* Leg C for C09 / C11: every (term, spelling variant) of MC_Grammar's universe printed as JSON: the
   spelling is parsed by the real from_spec and the result judged by the acceptor. *)
EXTENDS MC_Grammar, Json
Emit == MixOk => PrintT(ToJson([kind |-> "spelling", ti |-> ti, variant |-> VariantSeq[vi],
                                spec |-> Spell(T, VariantSeq[vi]), term |-> T]))
=============================================================================
