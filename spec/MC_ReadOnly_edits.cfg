CONSTANT Threads = {1}
CONSTANT MaxCalls = 2
CONSTANT AsCodedReinit = FALSE
CONSTANT AllowEdits = TRUE
CONSTANT CastInPlace = FALSE
SPECIFICATION Spec
INVARIANT Immutable
INVARIANT DocsUnchanged
INVARIANT Repeatable
PROPERTY EveryCallReturns
CHECK_DEADLOCK FALSE
