CONSTANT EscapePathKeys = TRUE
CONSTANT Shard = 0
CONSTANT NShards = 1
INIT Init
NEXT Next
INVARIANT SpellingParses
INVARIANT RoundTrip
CHECK_DEADLOCK FALSE
