CONSTANT Threads = {1, 2}
CONSTANT MaxCalls = 1
CONSTANT AsCodedReinit = FALSE
CONSTANT AllowEdits = TRUE
CONSTANT CastInPlace = TRUE
SPECIFICATION Spec
INVARIANT Immutable
INVARIANT DocsUnchanged
INVARIANT Repeatable
CHECK_DEADLOCK FALSE
