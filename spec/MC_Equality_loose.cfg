CONSTANT MolEqIgnoresKeyIndex = FALSE
CONSTANT ArgsLoose = TRUE
CONSTANT Shard = 0
CONSTANT NShards = 1
INIT Init
NEXT Next
INVARIANT Equivalence
INVARIANT EqualImpliesSameBehaviour
INVARIANT Separates
CHECK_DEADLOCK FALSE
