CONSTANT AsCodedConsume = TRUE
CONSTANT MaxCalls = 4
SPECIFICATION Spec
INVARIANT EveryParseAccepted
INVARIANT Reparse
PROPERTY SpecUnchanged
CHECK_DEADLOCK FALSE
