CONSTANT AliasRules = FALSE
CONSTANT MaxAdds = 2
SPECIFICATION GSpec
INVARIANT Emit
CHECK_DEADLOCK FALSE
