CONSTANT AsCodedReinit = FALSE
CONSTANT MolSlots = FALSE
CONSTANT MaxCells = 8
CONSTANT Acts = {"Combine", "MkPart", "MkMol", "PartFilter"}
SPECIFICATION Spec
INVARIANT Acyclic
INVARIANT OnlyDocumentedRefusal
INVARIANT NullIdentity
INVARIANT Pointwise
INVARIANT PartMeaning
PROPERTY Immutable
CHECK_DEADLOCK FALSE
