----------------------------- MODULE Trace_PyVal -----------------------------
(* Self-test of the oracle (DESIGN.md 4.7): raw CPython operator applications, recorded WITHOUT importing valida,
   judged against PyVal.tla.  Separates "the model of Python is wrong" (machinery failure) from "valida is wrong". *)
EXTENDS PyVal, Json, IOUtils, TLC
Events == ndJsonDeserialize(IOEnv.TRACE_FILE)
VARIABLE i
Init == i \in 1..Len(Events)
Next == UNCHANGED i
Exp(e) ==
  CASE e.op = "eq" -> B(PyEq(e.a, e.b))
    [] e.op \in {"lt", "le", "gt", "ge"} -> PyCmp(e.op, e.a, e.b)
    [] e.op = "in" -> PyIn(e.a, e.b)
    [] e.op = "in_range" -> PyInRange(e.a, e.b, e.c)
    [] e.op = "mod0" -> PyModIsZero(e.a, e.b)
    [] e.op = "approx" -> PyApprox(e.a, e.b, e.c)
    [] e.op = "isinstance" -> PyIsInstance(e.a, e.b.xs)
    [] e.op = "truthy" -> B(Truthy(e.a))
    [] e.op = "len" -> IF PyLen(e.a).k = "err" THEN "E" ELSE IF PyLen(e.a).n = e.n THEN "T" ELSE "F"
    [] e.op = "type" -> B(TypeOf(e.a).n = e.n)
    [] e.op = "int" -> LET p == ParseInt(e.a.xs) IN IF ~p.ok THEN "X" ELSE IF p.n = e.n THEN "T" ELSE "F"
    [] e.op = "strip" -> B(Strip(e.a.xs) = e.b.xs)
    [] e.op = "lower" -> B(Lower(e.a.xs) = e.b.xs)
    [] e.op = "split" -> B(LET ps == SplitOn(e.a.xs, 46) IN Len(ps) = Len(e.b.xs) /\ \A j \in 1..Len(ps) : ps[j] = e.b.xs[j].xs)
    [] e.op = "hashable" -> B(Hashable(e.a))
Check == LET e == Events[i] IN
         \/ Exp(e) = e.obs
         \/ PrintT(<<"MISMATCH", e.id, "PythonOperatorModel", e.op, Exp(e), e.obs>>) /\ FALSE
=============================================================================
