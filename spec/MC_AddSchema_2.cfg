CONSTANT AliasRules = FALSE
CONSTANT MaxAdds = 2
SPECIFICATION Spec
INVARIANT Sorted
INVARIANT LastAddJudgement
PROPERTY RulesImmutable
PROPERTY OnlyTargetChanges
CHECK_DEADLOCK FALSE
