CONSTANT EscapePathKeys = FALSE
CONSTANT Shard = 0
CONSTANT NShards = 1
INIT Init
NEXT Next
INVARIANT RoundTrip
CHECK_DEADLOCK FALSE
