CONSTANT AliasRules = TRUE
CONSTANT MaxAdds = 3
SPECIFICATION Spec
INVARIANT Sorted
INVARIANT LastAddJudgement
PROPERTY RulesImmutable
PROPERTY OnlyTargetChanges
CHECK_DEADLOCK FALSE
