CONSTANT SecondChildStrips = FALSE
CONSTANT Shard = 0
CONSTANT NShards = 1
INIT Init
NEXT Next
INVARIANT EveryLeafSeesValueInv
INVARIANT FailingHasReason
INVARIANT PassingHasNoLeafReasonAtTop
INVARIANT FailuresAreSubsequence
CHECK_DEADLOCK FALSE
