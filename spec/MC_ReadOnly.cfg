CONSTANT Threads = {1, 2}
CONSTANT MaxCalls = 1
CONSTANT AsCodedReinit = FALSE
CONSTANT AllowEdits = FALSE
CONSTANT CastInPlace = FALSE
SPECIFICATION Spec
INVARIANT Immutable
INVARIANT DocsUnchanged
INVARIANT Repeatable
PROPERTY EveryCallReturns
CHECK_DEADLOCK FALSE
