CONSTANT AliasRules = FALSE
CONSTANT MaxAdds = 3
SPECIFICATION GSpec
INVARIANT Emit
CHECK_DEADLOCK FALSE
