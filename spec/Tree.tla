-------------------------------- MODULE Tree --------------------------------
(***************************************************************************)
(* The documentation tree of a prefix-closed schema (Schema.to_tree) and   *)
(* its HTML rendering (write_tree_html) - C20.                             *)
(*  - which conditions are "always applicable" (a leaf, or leaves under    *)
(*    and-only combinations), which keys they name, which are required;    *)
(*  - structural laws of the flat tree (parents precede and are prefixes,  *)
(*    every rule once);                                                    *)
(*  - the HTML output as a trace of open / close events accepted by a      *)
(*    stack machine (every tag closed in order).                           *)
(***************************************************************************)
EXTENDS Schema

RECURSIVE OpsOf(_)
OpsOf(c) == IF c.t \in {"null", "leaf"} THEN {} ELSE {c.t} \cup OpsOf(c.l) \cup OpsOf(c.r)
AlwaysApplicable(c) == OpsOf(c) \subseteq {"and"}
\* keys named by always-applicable key conditions of callable fn
RECURSIVE NamedBy(_, _)
NamedBy(c, fn) == CASE c.t = "null" -> <<>>
                    [] c.t = "leaf" -> IF c.fn = fn THEN c.args ELSE <<>>
                    [] OTHER -> NamedBy(c.l, fn) \o NamedBy(c.r, fn)
InSeq(v, s) == \E j \in 1..Len(s) : Same(s[j], v)
RequiredKey(c, key) == AlwaysApplicable(c) /\ InSeq(key, NamedBy(c, "required_keys"))
MentionedKey(c, key) == AlwaysApplicable(c) /\ (InSeq(key, NamedBy(c, "required_keys")) \/ InSeq(key, NamedBy(c, "allowed_keys")))

\* The type-like conditions a tree node lists (Schema.to_tree "type" / "key_type"): every leaf - one entry per leaf, in
\* order, equal ones included - of an always-applicable condition that constrains the type / length / admissible values
\* of the value (Value.dtype.*, Value.length.*, Value.is_instance, Value.in_) or the type of the keys (Key.dtype.*,
\* Value.keys_is_instance)
IsValueTypeLeaf(c) == c.datum = "value" /\ (c.pre \in {"dtype", "length"} \/ (c.pre = "none" /\ c.fn \in {"is_instance", "in_"}))
IsKeyTypeLeaf(c) == (c.datum = "key" /\ c.pre = "dtype") \/ (c.datum = "value" /\ c.pre = "none" /\ c.fn = "keys_is_instance")
RECURSIVE CountLeaves(_, _)
CountLeaves(c, keyside) ==
  CASE c.t = "null" -> 0
    [] c.t = "leaf" -> IF (IF keyside THEN IsKeyTypeLeaf(c) ELSE IsValueTypeLeaf(c)) THEN 1 ELSE 0
    [] OTHER -> CountLeaves(c.l, keyside) + CountLeaves(c.r, keyside)
TypeEntries(c, keyside) == IF AlwaysApplicable(c) THEN CountLeaves(c, keyside) ELSE 0

(***************************************************************************)
(* HTML: a sequence of events [t \in {"open","close"}, tag].  Accepted iff *)
(* every close matches the innermost open element and nothing stays open.  *)
(***************************************************************************)
RECURSIVE Run(_, _)
Run(evs, stack) ==
  IF evs = <<>> THEN stack = <<>>
  ELSE LET e == Head(evs) IN
       IF e.t = "open" THEN Run(Tail(evs), <<e.tag>> \o stack)
       ELSE stack # <<>> /\ Head(stack) = e.tag /\ Run(Tail(evs), Tail(stack))
HtmlWellFormed(evs) == Run(evs, <<>>)
\* declarative: balanced = the sequence reduces to empty by cancelling adjacent open/close pairs of one tag
RECURSIVE Reduce(_)
Reduce(evs) ==
  IF \E j \in 1..(Len(evs) - 1) : evs[j].t = "open" /\ evs[j + 1].t = "close" /\ evs[j].tag = evs[j + 1].tag
  THEN LET j == CHOOSE j \in 1..(Len(evs) - 1) : evs[j].t = "open" /\ evs[j + 1].t = "close" /\ evs[j].tag = evs[j + 1].tag
       IN Reduce(SubSeq(evs, 1, j - 1) \o SubSeq(evs, j + 2, Len(evs)))
  ELSE evs
Balanced(evs) == Reduce(evs) = <<>>
=============================================================================
