------------------------------ MODULE Unparse -------------------------------
(***************************************************************************)
(* Serialisation of terms to the JSON-like spec language (the intended     *)
(* to_json_like / to_part_specs), spelling variants of a spec, and the     *)
(* JSON-representability predicate.  Together with Grammar.tla this gives  *)
(* the round-trip laws checked on the model:                               *)
(*      ParseCond(UnparseCond(c)) = c        IsJson(UnparseCond(c))        *)
(*      ParseCond(Spell(c, variant)) = c     for every spelling variant    *)
(* Switches: EscapePathKeys (literal mapping arguments whose keys look     *)
(* like path specs are written with the escaped key) - FALSE is the        *)
(* as-coded deviation.                                                     *)
(***************************************************************************)
EXTENDS Grammar

RECURSIVE IsJson(_)
IsJson(v) == CASE v.k \in {"none", "bool", "int", "float", "str", "eps"} -> TRUE
               [] v.k = "list" -> \A j \in 1..Len(v.xs) : IsJson(v.xs[j])
               [] v.k = "map" -> \A j \in 1..Len(v.xs) : v.xs[j][1].k = "str" /\ IsJson(v.xs[j][2])
               [] OTHER -> FALSE

TypeName(n) == CASE n = TInt -> C("int") [] n = TFloat -> C("float") [] n = TStr -> C("str") [] n = TList -> C("list")
                 [] n = TDict -> C("dict") [] n = TBool -> C("bool") [] n = TPath -> C("path") [] OTHER -> C("foo")
RECURSIVE TypesToNames(_)
TypesToNames(v) == CASE v.k = "type" -> StrV(TypeName(v.n))
                     [] v.k \in {"list", "tuple"} -> ListV([j \in 1..Len(v.xs) |-> TypesToNames(v.xs[j])])
                     [] OTHER -> v

Join(a, b) == a \o <<Dot>> \o b
LabelOf(datum, pre) == IF pre = "none" THEN C(datum) ELSE Join(C(datum), C(pre))
ModSuffix(p) == (IF p.dt # "none" THEN <<Dot>> \o C(p.dt) ELSE <<>>) \o (IF p.mt # "none" THEN <<Dot>> \o C(p.mt) ELSE <<>>)

RECURSIVE UnparseCond(_, _), UnparseArgD(_, _, _), UnparsePart(_, _)

\* literal mapping arguments: keys starting with "path" are escaped.  from_spec inspects the items /
\* values of a list / mapping argument one level down only, and not at all in a mapping that has an
\* escaped key: the serialiser converts / escapes exactly there (depth 0 = the argument itself).
\* (keys are read in any letter case, so "Path..." needs the escape as much as "path...")
EscKey(cs, esc) == IF esc /\ StartsWith(Lower(cs), PathCode) THEN <<92>> \o cs ELSE cs
PathLikeKey(kv) == kv.k = "str" /\ StartsWith(Lower(kv.xs), PathCode)
UnparseArgD(v, esc, depth) ==
  CASE v.k = "dpath" -> MapV(<< <<StrV(PathCode \o ModSuffix(v.xs[1])),
                                  ListV([j \in 1..Len(v.xs[1].parts) |-> UnparsePart(v.xs[1].parts[j], esc)])>> >>)
    [] v.k \in {"list", "tuple"} ->
         IF depth = 0 THEN ListV([j \in 1..Len(v.xs) |-> UnparseArgD(v.xs[j], esc, depth + 1)]) ELSE v
    [] v.k = "map" ->
         LET anyPath == \E j \in 1..Len(v.xs) : PathLikeKey(v.xs[j][1])
             recurse == depth = 0 /\ ~anyPath
         IN MapV([j \in 1..Len(v.xs) |->
                   <<IF v.xs[j][1].k = "str" THEN StrV(EscKey(v.xs[j][1].xs, esc)) ELSE v.xs[j][1],
                     IF recurse THEN UnparseArgD(v.xs[j][2], esc, depth + 1) ELSE v.xs[j][2]>>])
    [] OTHER -> v
UnparseArg(v, esc) == UnparseArgD(v, esc, 0)

UnparseCond(c, esc) ==
  CASE c.t = "null" -> MapV(<<>>)
    [] c.t = "leaf" ->
         LET key == StrV(Join(LabelOf(c.datum, c.pre), C(c.fn)))
             types == c.pre = "dtype" \/ c.fn \in {"is_instance", "keys_is_instance"}
             conv(v) == IF types THEN TypesToNames(v) ELSE UnparseArg(v, esc)
             conv1(v) == IF types THEN TypesToNames(v) ELSE UnparseArgD(v, esc, 1)
             nf == NormFixed(c.fn, c.args, c.kw)
             val == CASE SigKind(c.fn) = "none" -> None
                      [] SigKind(c.fn) = "varpos" -> ListV([j \in 1..Len(c.args) |-> conv1(c.args[j])])
                      [] SigKind(c.fn) = "varkw" -> MapV([j \in 1..Len(c.kw) |-> <<StrV(c.kw[j].nc), conv1(c.kw[j].v)>>])
                      [] Len(Params(c.fn)) = 1 -> conv(nf[1].v)
                      [] OTHER -> MapV([j \in 1..Len(nf) |-> <<StrV(nf[j].nc), conv1(nf[j].v)>>])
         IN MapV(<< <<key, val>> >>)
    [] OTHER -> MapV(<< <<StrV(C(c.t)), ListV(<<UnparseCond(c.l, esc), UnparseCond(c.r, esc)>>)>> >>)

\* a part as a full part spec (long forms); primitives for coerced parts
PrimOf(p) ==
  IF p.pk = "map" /\ p.label.k = "none" /\ p.cond.t = "leaf" /\ p.cond.datum = "key" /\ p.cond.pre = "none"
     /\ p.cond.fn = "equal_to" /\ p.cond.args = <<>> /\ Len(p.cond.kw) = 1 /\ p.cond.kw[1].v.k \in {"str", "float"}
  THEN [ok |-> TRUE, v |-> p.cond.kw[1].v]
  ELSE IF p.pk = "mol" /\ p.label.k = "none" /\ p.cond.t = "null"
          /\ p.lcond.t = "leaf" /\ p.lcond.datum = "index" /\ p.lcond.pre = "none" /\ p.lcond.fn = "equal_to"
          /\ p.mcond.t = "leaf" /\ p.mcond.datum = "key" /\ p.mcond.pre = "none" /\ p.mcond.fn = "equal_to"
          /\ Len(p.lcond.kw) = 1 /\ Len(p.mcond.kw) = 1 /\ p.lcond.kw[1].v.k \in {"int", "bool"}
          /\ Same(p.lcond.kw[1].v, p.mcond.kw[1].v)
  THEN [ok |-> TRUE, v |-> p.lcond.kw[1].v]
  ELSE [ok |-> FALSE, v |-> None]
Opt(cs, cond, esc) == IF cond.t = "null" THEN <<>> ELSE << <<StrV(cs), UnparseCond(cond, esc)>> >>
UnparsePart(p, esc) ==
  IF PrimOf(p).ok THEN PrimOf(p).v
  ELSE MapV(<< <<StrV(C("type")), StrV(CASE p.pk = "map" -> C("map_value") [] p.pk = "list" -> C("list_value")
                                           [] OTHER -> C("map_or_list_value"))>> >>
            \o Opt(C("condition"), p.cond, esc)
            \o (IF p.pk = "mol" THEN Opt(C("list_condition"), p.lcond, esc) \o Opt(C("map_condition"), p.mcond, esc) ELSE <<>>)
            \o (IF p.label.k = "none" THEN <<>> ELSE << <<StrV(C("label")), p.label>> >>))
UnparseParts(path, esc) == ListV([j \in 1..Len(path.parts) |-> UnparsePart(path.parts[j], esc)])

CastName(n) == CASE n = TStr -> C("str") [] n = TBool -> C("bool") [] n = TInt -> C("int") [] OTHER -> C("foo")
UnparseCast(cast) == IF cast = <<>> THEN None
                     ELSE MapV([j \in 1..Len(cast) |-> <<StrV(CastName(cast[j][1])), StrV(C(cast[j][2]))>>])
UnparseRule(r, esc) ==
  MapV(<< <<StrV(C("condition")), UnparseCond(r.cond, esc)>>, <<StrV(C("cast")), UnparseCast(r.cast)>>,
          <<StrV(C("path")), UnparseParts(r.path, esc)>> >>)

(***************************************************************************)
(* Spelling variants of a condition spec (C09): letter case of the key,    *)
(* aliases type/len/in, list instead of mapping for multi-parameter        *)
(* callables, type objects instead of names.                               *)
(***************************************************************************)
Upper(cs) == [j \in 1..Len(cs) |-> IF cs[j] >= 97 /\ cs[j] <= 122 THEN cs[j] - 32 ELSE cs[j]]
Title(cs) == [j \in 1..Len(cs) |-> IF (j = 1 \/ cs[j - 1] = Dot) /\ cs[j] >= 97 /\ cs[j] <= 122 THEN cs[j] - 32 ELSE cs[j]]
AliasPre(pre) == CASE pre = "dtype" -> C("type") [] pre = "length" -> C("len") [] OTHER -> C(pre)
AliasFn(fn) == CASE fn = "in_" -> C("in") [] fn = "equal_to" -> C("eq") [] fn = "less_than" -> C("lt")
                 [] fn = "greater_than" -> C("gt") [] fn = "less_than_or_equal_to" -> C("lte")
                 [] fn = "greater_than_or_equal_to" -> C("gte") [] OTHER -> C(fn)
Variants == {"canon", "upper", "title", "alias", "list"}
RECURSIVE Spell(_, _)
Spell(c, variant) ==
  CASE c.t = "null" -> MapV(<<>>)
    [] c.t = "leaf" ->
         LET canon == UnparseCond(c, TRUE)
             key0 == canon.xs[1][1].xs
             key == CASE variant = "upper" -> Upper(key0) [] variant = "title" -> Title(key0)
                      [] variant = "alias" -> (IF c.pre = "none" THEN Join(C(c.datum), AliasFn(c.fn))
                                               ELSE Join(Join(C(c.datum), AliasPre(c.pre)), AliasFn(c.fn)))
                      [] OTHER -> key0
             val0 == canon.xs[1][2]
             val == IF variant = "list" /\ SigKind(c.fn) = "fixed" /\ Len(Params(c.fn)) > 1
                    THEN ListV([j \in 1..Len(val0.xs) |-> val0.xs[j][2]]) ELSE val0
         IN MapV(<< <<StrV(key), val>> >>)
    [] OTHER -> MapV(<< <<StrV(C(c.t)), ListV(<<Spell(c.l, variant), Spell(c.r, variant)>>)>> >>)
=============================================================================
