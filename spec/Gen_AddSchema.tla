---------------------------- MODULE Gen_AddSchema ----------------------------
(* Leg C for C18: every history of <= MaxAdds add_schema calls, with the rule terms of every schema and what each
   schema's validation gives on every document after every step, to be replayed on real Schema / Rule objects. *)
EXTENDS AddSchema, Json
VARIABLE snaps
GInit == Init /\ snaps = <<>>
View == [k \in 1..Len(schemas') |->
           [ids |-> schemas'[k],
            rules |-> [q \in 1..Len(schemas'[k]) |-> rules'[schemas'[k][q]]],
            val |-> [di \in 1..Len(Docs) |->
                       LET v == Validate([q \in 1..Len(schemas'[k]) |-> rules'[schemas'[k][q]]], Docs[di], Design) IN
                       [u |-> v.u, valid |-> v.valid, nfail |-> v.nfail, ntested |-> v.ntested, cast_data |-> v.cast_data]]]]
GNext == Next /\ snaps' = Append(snaps, [s |-> hist'[Len(hist')].s, t |-> hist'[Len(hist')].t, r |-> hist'[Len(hist')].r, view |-> View])
GSpec == GInit /\ [][GNext]_<<vars, snaps>>
Emit ==
  /\ (Len(hist) = 0) => PrintT(ToJson([kind |-> "pool", rules |-> Rules0, schemas |-> Schemas0, roots |-> Roots, docs |-> Docs]))
  /\ (Len(hist) = MaxAdds) => PrintT(ToJson([kind |-> "behaviour", steps |-> snaps]))
=============================================================================
