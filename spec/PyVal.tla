------------------------------- MODULE PyVal -------------------------------
(***************************************************************************)
(* The value universe of valida documents and arguments, and the semantics *)
(* of the CPython operators valida's comparison callables are written in.  *)
(*                                                                         *)
(* Every Python value is ONE record shape [k, n, xs] (see DESIGN.md 3.2):  *)
(*   int   n = value            bool  n = 0/1        float n = 8 * value   *)
(*   none                       str   xs = code points                     *)
(*   list / tuple  xs = items   map   xs = << <<key, value>>, ... >>        *)
(*   type  n = type index       eps   a positive float below the 1/8 grid  *)
(*   dpath xs = << path record >> (a DataPath object used as an argument)  *)
(*   err   the result of a pre-processor that raised TypeError             *)
(*                                                                         *)
(* Operator outcomes are "T", "F", "E" (TypeError / AttributeError, the    *)
(* class valida catches by design) and "X" (any other exception).          *)
(* This module declares no VARIABLES.                                      *)
(***************************************************************************)
EXTENDS Integers, Sequences, FiniteSets

V(k, n, xs) == [k |-> k, n |-> n, xs |-> xs]
None == V("none", 0, <<>>)
Err  == V("err", 0, <<>>)
IntV(i) == V("int", i, <<>>)
BoolV(b) == V("bool", IF b THEN 1 ELSE 0, <<>>)
StrV(cs) == V("str", 0, cs)
ListV(xs) == V("list", 0, xs)
MapV(ps) == V("map", 0, ps)
B(b) == IF b THEN "T" ELSE "F"
Not(o) == CASE o = "T" -> "F" [] o = "F" -> "T" [] OTHER -> o

IsNum(v) == v.k \in {"int", "bool", "float"}
IsIntLike(v) == v.k \in {"int", "bool"}
IsSeqLike(v) == v.k \in {"list", "tuple"}
N8(v) == IF v.k = "float" THEN v.n ELSE 8 * v.n      \* numeric value in eighths (SMALL numbers only: |value| < 2^27)
Abs(i) == IF i < 0 THEN -i ELSE i
\* Numbers as pairs <<q, r>> = q + r/8 with q = floor(value), r \in 0..7: exact for every int TLC can hold
\* (|n| < 2^31) and every float of the grid, without the multiplication by 8 that N8 needs.
BigNum == 134217728                                       \* 2^27
NumQ(v) == IF v.k = "float" THEN v.n \div 8 ELSE v.n
NumR(v) == IF v.k = "float" THEN v.n % 8 ELSE 0
NumP(v) == <<NumQ(v), NumR(v)>>
PEq(a, b) == a[1] = b[1] /\ a[2] = b[2]
PLt(a, b) == a[1] < b[1] \/ (a[1] = b[1] /\ a[2] < b[2])
PSub(a, b) == IF a[2] >= b[2] THEN <<a[1] - b[1], a[2] - b[2]>> ELSE <<a[1] - b[1] - 1, a[2] - b[2] + 8>>
PZero == <<0, 0>>

TInt == 1  TFloat == 2  TStr == 3  TList == 4  TDict == 5  TBool == 6  TNone == 7
TPath == 8  TTuple == 9
TypeV(i) == V("type", i, <<>>)
TypeIdx(v) == CASE v.k = "int" -> TInt [] v.k = "float" -> TFloat [] v.k = "str" -> TStr
                [] v.k = "list" -> TList [] v.k = "map" -> TDict [] v.k = "bool" -> TBool
                [] v.k = "none" -> TNone [] v.k = "tuple" -> TTuple [] OTHER -> 0
TypeOf(v) == TypeV(TypeIdx(v))

RECURSIVE Hashable(_)
Hashable(v) == CASE v.k \in {"list", "map"} -> FALSE
                 [] v.k = "tuple" -> \A i \in 1..Len(v.xs) : Hashable(v.xs[i])
                 [] OTHER -> TRUE

(***************************************************************************)
(* a == b  (never raises)                                                  *)
(***************************************************************************)
RECURSIVE PyEq(_, _)
PyEq(a, b) ==
  CASE IsNum(a) /\ IsNum(b) -> PEq(NumP(a), NumP(b))
    [] a.k = "str" /\ b.k = "str" -> a.xs = b.xs
    [] a.k = "none" /\ b.k = "none" -> TRUE
    [] a.k = "type" /\ b.k = "type" -> a.n = b.n
    [] a.k = "eps" /\ b.k = "eps" -> TRUE
    [] IsSeqLike(a) /\ a.k = b.k ->
         Len(a.xs) = Len(b.xs) /\ \A i \in 1..Len(a.xs) : PyEq(a.xs[i], b.xs[i])
    [] a.k = "map" /\ b.k = "map" ->
         Len(a.xs) = Len(b.xs) /\
         \A i \in 1..Len(a.xs) : \E j \in 1..Len(b.xs) :
             PyEq(a.xs[i][1], b.xs[j][1]) /\ PyEq(a.xs[i][2], b.xs[j][2])
    [] OTHER -> FALSE

(***************************************************************************)
(* Type-exact structural identity ("bit for bit the same"): 1, 1.0 and     *)
(* True are different, mapping order matters.                              *)
(***************************************************************************)
RECURSIVE Same(_, _)
Same(a, b) ==
  /\ (a.k = b.k \/ {a.k, b.k} \subseteq {"dpath", "rdpath"})
  /\ CASE a.k \in {"list", "tuple"} ->
            Len(a.xs) = Len(b.xs) /\ \A i \in 1..Len(a.xs) : Same(a.xs[i], b.xs[i])
       [] a.k = "map" ->
            Len(a.xs) = Len(b.xs) /\
            \A i \in 1..Len(a.xs) : Same(a.xs[i][1], b.xs[i][1]) /\ Same(a.xs[i][2], b.xs[i][2])
       [] a.k = "str" -> a.xs = b.xs
       [] a.k \in {"dpath", "rdpath"} -> TRUE
       [] OTHER -> a.n = b.n

\* Same, except that mappings are compared as unordered sets of (key, value) pairs: identity of
\* a stored ARGUMENT (python dict equality ignores insertion order), still type-exact.
RECURSIVE SameU(_, _)
SameU(a, b) ==
  /\ (a.k = b.k \/ {a.k, b.k} \subseteq {"dpath", "rdpath"})
  /\ CASE a.k \in {"list", "tuple"} ->
            Len(a.xs) = Len(b.xs) /\ \A i \in 1..Len(a.xs) : SameU(a.xs[i], b.xs[i])
       [] a.k = "map" ->
            Len(a.xs) = Len(b.xs) /\
            \A i \in 1..Len(a.xs) : \E j \in 1..Len(b.xs) : SameU(a.xs[i][1], b.xs[j][1]) /\ SameU(a.xs[i][2], b.xs[j][2])
       [] a.k = "str" -> a.xs = b.xs
       [] a.k \in {"dpath", "rdpath"} -> TRUE
       [] OTHER -> a.n = b.n

(***************************************************************************)
(* a < b, a <= b, a > b, a >= b                                            *)
(***************************************************************************)
RECURSIVE SeqLt(_, _)     \* lexicographic order on code point sequences
SeqLt(s, t) == IF t = <<>> THEN FALSE ELSE IF s = <<>> THEN TRUE
               ELSE IF Head(s) # Head(t) THEN Head(s) < Head(t) ELSE SeqLt(Tail(s), Tail(t))

NumCmp(op, x, y) == CASE op = "lt" -> x < y [] op = "le" -> x <= y
                      [] op = "gt" -> x > y [] op = "ge" -> x >= y
PCmp(op, x, y) == CASE op = "lt" -> PLt(x, y) [] op = "le" -> ~PLt(y, x)
                    [] op = "gt" -> PLt(y, x) [] op = "ge" -> ~PLt(x, y)
RECURSIVE PyCmp(_, _, _)
PyCmp(op, a, b) ==
  CASE IsNum(a) /\ IsNum(b) -> B(PCmp(op, NumP(a), NumP(b)))
    [] a.k = "str" /\ b.k = "str" ->
         B(CASE op = "lt" -> SeqLt(a.xs, b.xs) [] op = "le" -> ~SeqLt(b.xs, a.xs)
             [] op = "gt" -> SeqLt(b.xs, a.xs) [] op = "ge" -> ~SeqLt(a.xs, b.xs))
    [] IsSeqLike(a) /\ a.k = b.k ->
         LET m == IF Len(a.xs) < Len(b.xs) THEN Len(a.xs) ELSE Len(b.xs)
             D == {i \in 1..m : ~PyEq(a.xs[i], b.xs[i])}
         IN IF D = {} THEN B(NumCmp(op, Len(a.xs), Len(b.xs)))
            ELSE LET i == CHOOSE i \in D : \A j \in D : i <= j IN PyCmp(op, a.xs[i], b.xs[i])
    [] OTHER -> "E"

Truthy(v) == CASE IsNum(v) -> v.n # 0 [] v.k = "none" -> FALSE
               [] v.k \in {"type", "eps", "dpath"} -> TRUE [] OTHER -> Len(v.xs) > 0

PyLen(v) == IF v.k \in {"str", "list", "tuple", "map"} THEN IntV(Len(v.xs)) ELSE Err

SubSeqOf(s, t) == \E i \in 0..(Len(t) - Len(s)) : \A j \in 1..Len(s) : t[i + j] = s[j]

(***************************************************************************)
(* x in c                                                                  *)
(***************************************************************************)
PyIn(x, c) ==
  CASE IsSeqLike(c) -> B(\E i \in 1..Len(c.xs) : PyEq(x, c.xs[i]))
    [] c.k = "str"  -> IF x.k = "str" THEN B(Len(x.xs) <= Len(c.xs) /\ SubSeqOf(x.xs, c.xs)) ELSE "E"
    [] c.k = "map"  -> IF Hashable(x) THEN B(\E i \in 1..Len(c.xs) : PyEq(x, c.xs[i][1])) ELSE "E"
    [] OTHER -> "E"

(***************************************************************************)
(* x in range(lo, hi)                                                      *)
(***************************************************************************)
PyInRange(x, lo, hi) ==
  IF ~(IsIntLike(lo) /\ IsIntLike(hi)) THEN "E"
  ELSE IF IsNum(x) THEN B(NumR(x) = 0 /\ lo.n <= NumQ(x) /\ NumQ(x) < hi.n)
  ELSE "F"

(***************************************************************************)
(* (a % b) == 0    (strings are %-free in the universe)                    *)
(***************************************************************************)
PyModIsZero(a, b) ==
  CASE IsNum(a) /\ IsNum(b) ->
         IF b.n = 0 THEN "X"
         ELSE IF IsIntLike(a) /\ IsIntLike(b) THEN B(a.n % Abs(b.n) = 0)
         ELSE IF Abs(NumQ(a)) < BigNum /\ Abs(NumQ(b)) < BigNum THEN B(N8(a) % Abs(N8(b)) = 0)
         ELSE IF IsIntLike(a) THEN                                            \* big int % float: 8a mod e by doubling
              LET e == Abs(b.n)  D(m) == (2 * m) % e IN B(D(D(D(a.n % e))) = 0)
         ELSE B(a.n = 0)                                                       \* small float % big int
    [] a.k = "str" -> IF b.k \in {"list", "map"} \/ (b.k = "tuple" /\ b.xs = <<>>) THEN "F" ELSE "E"
    [] OTHER -> "E"

(***************************************************************************)
(* abs(x - v) < tol                                                        *)
(***************************************************************************)
PyApprox(x, v, tol) ==
  IF ~(IsNum(x) /\ IsNum(v)) THEN "E"
  ELSE IF tol.k = "eps" THEN B(PEq(NumP(x), NumP(v)))
  ELSE IF ~IsNum(tol) THEN "E"
  ELSE LET hi == IF PLt(NumP(x), NumP(v)) THEN NumP(v) ELSE NumP(x)
           lo == IF PLt(NumP(x), NumP(v)) THEN NumP(x) ELSE NumP(v)
           t == NumP(tol)
       IN IF ~PLt(PZero, t) THEN "F"                                  \* |d| >= 0 >= tol
          ELSE IF hi[1] < 0 \/ lo[1] >= 0 THEN B(PLt(PSub(hi, lo), t))  \* same sign: the difference fits
          ELSE B(PLt(PSub(hi, t), lo))                                  \* hi >= 0 > lo: hi - tol < lo, no overflow

(***************************************************************************)
(* isinstance(x, classes): left to right, a non-type reached before a hit  *)
(* is a TypeError; bool is an instance of int.                             *)
(***************************************************************************)
IsInst1(x, c) == \/ TypeIdx(x) = c.n
                 \/ (x.k = "bool" /\ c.n = TInt)
RECURSIVE PyIsInstance(_, _)
PyIsInstance(x, cs) ==
  IF cs = <<>> THEN "F"
  ELSE IF Head(cs).k = "tuple" THEN PyIsInstance(x, Head(cs).xs \o Tail(cs))   \* nested tuples of classes
  ELSE IF Head(cs).k # "type" THEN "E"
  ELSE IF IsInst1(x, Head(cs)) THEN "T" ELSE PyIsInstance(x, Tail(cs))

(***************************************************************************)
(* Text helpers over code point sequences (ASCII).                         *)
(***************************************************************************)
\* str.lower(): ASCII, and the few non-ASCII characters of the universe: E-acute 201 -> 233; long s 383, sharp s 223,
\* e-acute 233 are their own lower case (str.casefold() would map long s to "s" - the library must not use it)
LowerC(c) == IF c >= 65 /\ c <= 90 THEN c + 32 ELSE IF c = 201 THEN 233 ELSE c
Lower(cs) == [i \in 1..Len(cs) |-> LowerC(cs[i])]
\* decimal digits: ASCII, and two non-ASCII representatives that int() / float() accept: ARABIC-INDIC DIGIT THREE
\* (1635) and FULLWIDTH DIGIT THREE (65299)
IsDigit(c) == (c >= 48 /\ c <= 57) \/ c \in {1635, 65299}
DigitOf(c) == IF c \in {1635, 65299} THEN 3 ELSE c - 48
RECURSIVE SplitOn(_, _)    \* str.split(delim) for a one-character delimiter
SplitOn(cs, d) ==
  IF \A i \in 1..Len(cs) : cs[i] # d THEN <<cs>>
  ELSE LET i == CHOOSE i \in 1..Len(cs) : cs[i] = d /\ \A j \in 1..(i - 1) : cs[j] # d
       IN <<SubSeq(cs, 1, i - 1)>> \o SplitOn(SubSeq(cs, i + 1, Len(cs)), d)
\* the ASCII characters str.strip() and int() treat as white space: \t \n \v \f \r, FS GS RS US, space
\* ... and two non-ASCII representatives: NO-BREAK SPACE (160), EM SPACE (8195)
WhiteSpace == {9, 10, 11, 12, 13, 28, 29, 30, 31, 32, 160, 8195}
RECURSIVE StripL(_)
StripL(cs) == IF cs # <<>> /\ Head(cs) \in WhiteSpace THEN StripL(Tail(cs)) ELSE cs
RECURSIVE StripR(_)
StripR(cs) == IF cs # <<>> /\ cs[Len(cs)] \in WhiteSpace THEN StripR(SubSeq(cs, 1, Len(cs) - 1)) ELSE cs
Strip(cs) == StripR(StripL(cs))
StartsWith(cs, p) == Len(cs) >= Len(p) /\ SubSeq(cs, 1, Len(p)) = p

(***************************************************************************)
(* int(s) for a str: optional spaces around, optional sign, digits with    *)
(* single interior underscores.  Result [ok, n].                           *)
(***************************************************************************)
RECURSIVE DigitsVal(_, _)
DigitsVal(ds, acc) == IF ds = <<>> THEN acc
                      ELSE IF Head(ds) = 95 THEN DigitsVal(Tail(ds), acc)
                      ELSE DigitsVal(Tail(ds), 10 * acc + DigitOf(Head(ds)))
DigitsOk(ds) == /\ ds # <<>>
                /\ \A i \in 1..Len(ds) : IsDigit(ds[i]) \/ ds[i] = 95
                /\ IsDigit(ds[1]) /\ IsDigit(ds[Len(ds)])
                /\ \A i \in 1..(Len(ds) - 1) : ~(ds[i] = 95 /\ ds[i + 1] = 95)
\* int() strips only \t \n \v \f \r and space (not FS GS RS US, which str.strip() does strip) - checked against CPython
IntSpace == {9, 10, 11, 12, 13, 32, 160, 8195}
RECURSIVE IStripL(_)
IStripL(cs) == IF cs # <<>> /\ Head(cs) \in IntSpace THEN IStripL(Tail(cs)) ELSE cs
RECURSIVE IStripR(_)
IStripR(cs) == IF cs # <<>> /\ cs[Len(cs)] \in IntSpace THEN IStripR(SubSeq(cs, 1, Len(cs) - 1)) ELSE cs
ParseInt(cs) ==
  LET s == IStripR(IStripL(cs))
      neg == s # <<>> /\ Head(s) = 45
      ds == IF s # <<>> /\ Head(s) \in {43, 45} THEN Tail(s) ELSE s
  IN IF DigitsOk(ds) /\ Len(ds) <= 9
     THEN [ok |-> TRUE, n |-> IF neg THEN -DigitsVal(ds, 0) ELSE DigitsVal(ds, 0)]
     ELSE [ok |-> FALSE, n |-> 0]

\* valida.casting.cast_string_to_bool : "T" + value, or "E" (TypeError)
LTrue == <<116, 114, 117, 101>>
LFalse == <<102, 97, 108, 115, 101>>

(***************************************************************************)
(* Views of a container: keys (indices for a list) and values, in order.   *)
(***************************************************************************)
IsCont(v) == v.k \in {"list", "map"} /\ Len(v.xs) > 0
Keys(d) == IF d.k = "map" THEN [i \in 1..Len(d.xs) |-> d.xs[i][1]]
           ELSE [i \in 1..Len(d.xs) |-> IntV(i - 1)]
Vals(d) == IF d.k = "map" THEN [i \in 1..Len(d.xs) |-> d.xs[i][2]] ELSE d.xs

RECURSIVE Flat(_)
Flat(ss) == IF ss = <<>> THEN <<>> ELSE Head(ss) \o Flat(Tail(ss))

\* d[k] for one key / index k (python subscript with == on keys); [ok, v]
Sub1(d, k) ==
  IF d.k = "map" THEN
     LET H == {i \in 1..Len(d.xs) : PyEq(d.xs[i][1], k)} IN
     IF H = {} THEN [ok |-> FALSE, v |-> None] ELSE [ok |-> TRUE, v |-> d.xs[CHOOSE i \in H : TRUE][2]]
  ELSE IF d.k = "list" /\ IsIntLike(k) /\ k.n >= 0 /\ k.n < Len(d.xs)
       THEN [ok |-> TRUE, v |-> d.xs[k.n + 1]] ELSE [ok |-> FALSE, v |-> None]
RECURSIVE Index(_, _)
Index(d, p) == IF p = <<>> THEN [ok |-> TRUE, v |-> d]
               ELSE LET s == Sub1(d, Head(p)) IN IF s.ok THEN Index(s.v, Tail(p)) ELSE s

\* replace the node at concrete key path p (non-empty, existing) by w
RECURSIVE Put(_, _, _)
Put(d, p, w) ==
  IF p = <<>> THEN w
  ELSE IF d.k = "map" THEN
         MapV([i \in 1..Len(d.xs) |->
                 IF PyEq(d.xs[i][1], Head(p)) THEN <<d.xs[i][1], Put(d.xs[i][2], Tail(p), w)>> ELSE d.xs[i]])
       ELSE ListV([i \in 1..Len(d.xs) |->
                 IF i = Head(p).n + 1 THEN Put(d.xs[i], Tail(p), w) ELSE d.xs[i]])
=============================================================================
