--------------------------- MODULE Trace_Equality ---------------------------
(***************************************************************************)
(* Leg B acceptor for C14: a family of real objects {x, x rebuilt, x with  *)
(* operands commuted, single-atom mutants of x}; the real == matrix E, the *)
(* equivalence classes of the REAL behaviour on the probe documents, and   *)
(* the projections, on which the specification computes the behaviour.     *)
(***************************************************************************)
EXTENDS Equality, Json, IOUtils, TLC
Events == ndJsonDeserialize(IOEnv.TRACE_FILE)
VARIABLE i
Init == i \in 1..Len(Events)
Next == UNCHANGED i

N(e) == Len(e.terms)
Clauses(e) ==
  << <<"Reflexive", \A a \in 1..N(e) : e.E[a][a]>>,
     <<"Symmetric", \A a, b \in 1..N(e) : e.E[a][b] = e.E[b][a]>>,
     <<"Transitive", \A a, b, c \in 1..N(e) : (e.E[a][b] /\ e.E[b][c]) => e.E[a][c]>>,
     <<"RebuiltCopyIsEqual", \A a \in 1..N(e) : e.roles[a] = "rebuilt" => e.E[1][a]>>,
     <<"CommutedIsEqual", \A a \in 1..N(e) : e.roles[a] = "commuted" => e.E[1][a]>>,
     <<"EqualImpliesSameRealBehaviour", \A a, b \in 1..N(e) : e.E[a][b] => e.beh[a] = e.beh[b]>>,
     <<"EqualImpliesSameMeaning", \A a, b \in 1..N(e) : (a < b /\ e.E[a][b]) =>
          \A d \in 1..Len(e.probes) : SameBehaviour(e.kind, e.terms[a], e.terms[b], e.probes[d])>> >>
Check == LET e == Events[i]
             cl == Clauses(e)
             bad == {j \in 1..Len(cl) : ~cl[j][2]}
         IN \/ bad = {}
            \/ LET j == CHOOSE j \in bad : \A m \in bad : j <= m
               IN PrintT(<<"MISMATCH", e.id, cl[j][1]>>) /\ FALSE
=============================================================================
