------------------------------- MODULE Build --------------------------------
(***************************************************************************)
(* The Python API constructors at term level: what object (term) a         *)
(* construction recipe must produce.  Recipes are what the drivers /       *)
(* generators describe (DSL calls with actual arguments, operator trees,   *)
(* part constructors with key / index / value / condition arguments,       *)
(* DataPath(parts...) with modifiers); the projection of the real object is  *)
(* compared with the term built here (TermSame / PartSame / PathSame).     *)
(*                                                                         *)
(*  recipe condition: [t |-> "null"] | [t |-> "rleaf", fn, datum, pre,     *)
(*     actuals, akw] | [t |-> "leaf", ...] | [t \in Ops, l, r]             *)
(*  recipe datum argument: [t |-> "none"] | [t |-> "prim", v] | condition  *)
(*  recipe part: [rk |-> "prim", v] | [rk \in {"map","list","mol"}, key,   *)
(*     index, value, cond, lcond, mcond, label]  (lcond / mcond: the        *)
(*     list_condition / map_condition arguments of a map-or-list part)     *)
(***************************************************************************)
EXTENDS Path

\* a tree built bottom-up with the real operators / classes: the specification applies the DSL
\* binding (Store) and the null short-circuit itself and compares with the projection of the result
RECURSIVE NormT(_)
NormT(t) == CASE t.t = "null" -> Null
              [] t.t = "leaf" -> t
              [] t.t = "rleaf" -> LET st == Store(t.fn, t.actuals, t.akw) IN Leaf(t.datum, t.pre, t.fn, st.args, st.kw)
              [] OTHER -> BinN(t.t, NormT(t.l), NormT(t.r))
RECURSIVE StoreOk(_)
StoreOk(t) == CASE t.t \in {"null", "leaf"} -> TRUE
                [] t.t = "rleaf" -> Store(t.fn, t.actuals, t.akw).ok
                [] OTHER -> StoreOk(t.l) /\ StoreOk(t.r)
RECURSIVE MixErr(_)
MixErr(t) == IF t.t \in {"null", "leaf", "rleaf"} THEN FALSE
             ELSE \/ MixErr(t.l) \/ MixErr(t.r)
                  \/ LET n == NormT(t) IN n.t \in Ops /\ NormT(t.l).t # "null" /\ NormT(t.r).t # "null" /\ MixesKeyIndex(n)
(***************************************************************************)
(* Part constructors (MapValue / ListValue / MapOrListValue.__init__ via   *)
(* get_container_value_condition).                                         *)
(***************************************************************************)
DatumCond(x, datum) ==
  CASE x.t = "none" -> Null
    [] x.t = "prim" -> IF x.v.k = "none" THEN Null       \* key=None / value=None mean "not given"
                       ELSE Leaf(datum, "none", "equal_to", <<>>, KwValue(x.v))
    [] OTHER -> NormT(x)
CondOrNull(x) == IF x.t = "none" THEN Null ELSE NormT(x)
MkPartT(r) ==
  CASE r.rk = "prim" -> Coerce(r.v)
    [] r.rk = "map" -> Part("map", AndN(AndN(CondOrNull(r.cond), DatumCond(r.key, "key")), DatumCond(r.value, "value")),
                            Null, Null, r.label)
    [] r.rk = "list" -> Part("list", AndN(AndN(CondOrNull(r.cond), DatumCond(r.index, "index")), DatumCond(r.value, "value")),
                             Null, Null, r.label)
    [] OTHER -> Part("mol", AndN(CondOrNull(r.cond), DatumCond(r.value, "value")),
                     AndN(CondOrNull(r.lcond), DatumCond(r.index, "index")),
                     AndN(CondOrNull(r.mcond), DatumCond(r.key, "key")), r.label)
ArgStoreOk(x) == x.t \in {"none", "prim"} \/ StoreOk(x)
PartRecipeOk(r) == r.rk = "prim" \/ (ArgStoreOk(r.cond) /\ ArgStoreOk(r.key) /\ ArgStoreOk(r.index) /\ ArgStoreOk(r.value)
                                   /\ ArgStoreOk(r.lcond) /\ ArgStoreOk(r.mcond))
MkPathT(rparts, dt, mt) ==
  PathT([j \in 1..Len(rparts) |-> MkPartT(rparts[j])],
        \A j \in 1..Len(rparts) : rparts[j].rk = "prim", dt, mt)

(***************************************************************************)
(* Structural identity of a projection p (stored form) with a normal-form   *)
(* term n.  Arguments are compared type-exactly, mappings unordered, and    *)
(* DATA-PATH ARGUMENTS DEEPLY (part by part), whether given as a           *)
(* projection ("dpath") or as a recipe ("rdpath").                         *)
(***************************************************************************)
RECURSIVE ArgSame(_, _), TermSame(_, _), PartSame(_, _), PathSame(_, _)
IsPathVal(v) == v.k \in {"dpath", "rdpath"}
PathOfArg(v) == IF v.k = "rdpath" THEN MkPathT(v.xs[1].rparts, v.xs[1].dt, v.xs[1].mt) ELSE v.xs[1]
ArgSame(a, b) ==
  IF IsPathVal(a) \/ IsPathVal(b) THEN IsPathVal(a) /\ IsPathVal(b) /\ PathSame(PathOfArg(a), PathOfArg(b))
  ELSE /\ a.k = b.k
       /\ CASE a.k \in {"list", "tuple"} ->
                 Len(a.xs) = Len(b.xs) /\ \A i \in 1..Len(a.xs) : ArgSame(a.xs[i], b.xs[i])
            [] a.k = "map" ->
                 Len(a.xs) = Len(b.xs) /\
                 \A i \in 1..Len(a.xs) : \E j \in 1..Len(b.xs) : ArgSame(a.xs[i][1], b.xs[j][1]) /\ ArgSame(a.xs[i][2], b.xs[j][2])
            [] a.k = "str" -> a.xs = b.xs
            [] OTHER -> a.n = b.n
KwSeqSame(a, b) == Len(a) = Len(b) /\ \A j \in 1..Len(a) : a[j].nc = b[j].nc /\ ArgSame(a[j].v, b[j].v)
KwSetSame(a, b) == /\ Len(a) = Len(b)
                   /\ \A j \in 1..Len(a) : \E m \in 1..Len(b) : a[j].nc = b[m].nc /\ ArgSame(a[j].v, b[m].v)
ArgsSameFn(fn, pargs, pkw, sargs, skw) ==
  CASE SigKind(fn) = "fixed" -> FixedShapeOk(fn, pargs, pkw) /\ KwSeqSame(NormFixed(fn, pargs, pkw), skw)
    [] SigKind(fn) = "varkw" -> pargs = <<>> /\ KwSetSame(pkw, skw)
    [] OTHER -> pkw = <<>> /\ Len(pargs) = Len(sargs) /\ \A j \in 1..Len(pargs) : ArgSame(pargs[j], sargs[j])
TermSame(p, n) ==
  CASE n.t = "null" -> p.t = "null"
    [] n.t = "leaf" -> /\ p.t = "leaf" /\ p.fn = n.fn /\ p.datum = n.datum /\ p.pre = n.pre
                       /\ ArgsSameFn(n.fn, p.args, p.kw, n.args, n.kw)
    [] OTHER -> p.t = n.t /\ TermSame(p.l, n.l) /\ TermSame(p.r, n.r)
PartSame(p, n) == /\ p.pk = n.pk /\ TermSame(p.cond, n.cond) /\ TermSame(p.lcond, n.lcond)
                  /\ TermSame(p.mcond, n.mcond) /\ Same(p.label, n.label)
PathSame(p, n) == /\ Len(p.parts) = Len(n.parts) /\ \A j \in 1..Len(n.parts) : PartSame(p.parts[j], n.parts[j])
                  /\ p.concrete = n.concrete /\ p.dt = n.dt /\ p.mt = n.mt
=============================================================================
