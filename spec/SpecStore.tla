------------------------------ MODULE SpecStore ------------------------------
(***************************************************************************)
(* The spec-store fragment of the valida state machine (C16): the caller   *)
(* owns spec structures with identity (`store`); several specs may SHARE a *)
(* sub-structure (the same list of part specs, the same cast mapping, the  *)
(* same argument list).  Parse calls read the store.                       *)
(*   ParseRuleCall(i, j)  Rule.from_spec({"path": store[i],                *)
(*                          "condition": ..., "cast": store[j]})           *)
(*   ParsePartCall(i)     ContainerValue.from_spec(last item of store[i])  *)
(*   ParseCondCall(i)     ConditionLike.from_spec({"value.in": store[i]})  *)
(* AsCodedConsume = TRUE models the pinned code: the part parser pops its  *)
(* mapping empty, the rule parser rewrites the cast mapping, the condition *)
(* parser replaces path specs inside list arguments by path objects.       *)
(***************************************************************************)
EXTENDS Unparse, TLC
CONSTANTS AsCodedConsume, MaxCalls

I(n) == IntV(n)
Sa == StrV(<<97>>)
PartSpec == MapV(<< <<StrV(C("type")), StrV(C("map_value"))>>, <<StrV(C("key")), MapV(<< <<StrV(C("key") \o <<Dot>> \o C("equal_to")), Sa>> >>)>> >>)
Store0 == << ListV(<<Sa, PartSpec>>),                                     \* 1: part specs (shared by two rule specs)
             MapV(<< <<StrV(C("str")), StrV(C("int"))>> >>),                \* 2: cast mapping
             ListV(<<MapV(<< <<StrV(PathCode), ListV(<<Sa>>)>> >>), I(7)>>),  \* 3: argument list with a path spec
             None >>                                                      \* 4: no cast
VARIABLES store, hist
Init == store = Store0 /\ hist = <<>>

RuleSpecOf(s, i, j) == MapV(<< <<StrV(PathCode), s[i]>>,
                               <<StrV(C("condition")), MapV(<< <<StrV(C("value") \o <<Dot>> \o C("equal_to")), I(1)>> >>)>>,
                               <<StrV(C("cast")), s[j]>> >>)
CondSpecOf(s, i) == MapV(<< <<StrV(C("value") \o <<Dot>> \o C("in")), s[i]>> >>)
\* what the pinned code leaves behind
ConsumedCast(v) == IF v.k = "map" THEN MapV(<< <<TypeV(TStr), StrV(C("int"))>> >>) ELSE v
ConsumedArgs(v) == ListV([j \in 1..Len(v.xs) |-> IF v.xs[j].k = "map" THEN V("dpath", 0, <<PathT(<<Coerce(Sa)>>, TRUE, "none", "none")>>) ELSE v.xs[j]])

ParseRuleCall(i, j) ==
  /\ i = 1 /\ j \in {2, 4}
  /\ LET r == ParseRule(RuleSpecOf(store, i, j)) IN
     hist' = Append(hist, [call |-> <<"rule", i, j>>, st |-> r.st, t |-> r.t])
  /\ store' = IF AsCodedConsume THEN [store EXCEPT ![j] = ConsumedCast(@)] ELSE store
ParsePartCall(i) ==
  /\ i = 1
  /\ LET sp == store[i].xs[Len(store[i].xs)]  r == ParsePart(sp) IN
     hist' = Append(hist, [call |-> <<"part", i, 0>>, st |-> r.st, t |-> r.t])
  /\ store' = IF AsCodedConsume THEN [store EXCEPT ![i] = ListV(<<@.xs[1], MapV(<<>>)>>)] ELSE store
ParseCondCall(i) ==
  /\ i = 3
  /\ LET r == ParseCond(CondSpecOf(store, i)) IN
     hist' = Append(hist, [call |-> <<"cond", i, 0>>, st |-> r.st, t |-> r.t])
  /\ store' = IF AsCodedConsume THEN [store EXCEPT ![i] = ConsumedArgs(@)] ELSE store
Next == /\ Len(hist) < MaxCalls
        /\ \/ \E i \in 1..Len(store), j \in 1..Len(store) : ParseRuleCall(i, j)
           \/ \E i \in 1..Len(store) : ParsePartCall(i) \/ ParseCondCall(i)
Spec == Init /\ [][Next]_<<store, hist>>

SpecUnchanged == [][store' = store]_store
EveryParseAccepted == \A k \in 1..Len(hist) : hist[k].st = "ok"
Reparse == \A k, m \in 1..Len(hist) : hist[k].call = hist[m].call => (hist[k].st = hist[m].st /\ hist[k].t = hist[m].t)
=============================================================================
