CONSTANT AsCodedConsume = FALSE
CONSTANT MaxCalls = 4
SPECIFICATION Spec
INVARIANT Emit
CHECK_DEADLOCK FALSE
