------------------------------- MODULE MC_Cond -------------------------------
(***************************************************************************)
(* Leg A for C01: on a TLA+-enumerated universe of (leaf, item) pairs the  *)
(* leaf MECHANISM (three flags) agrees with the leaf MEANING (defined and  *)
(* true), and no item aborts the filter.  CatchAll = FALSE is the as-coded *)
(* deviation (only TypeError / AttributeError caught): must be rejected.   *)
(***************************************************************************)
EXTENDS Dsl, TLC
CONSTANT CatchAll

Sa == StrV(<<97>>)
Sb == StrV(<<98>>)
Sab == StrV(<<97, 98>>)
ArgPool == {IntV(0), IntV(1), IntV(2), V("float", 12, <<>>), BoolV(TRUE), None, StrV(<<>>), Sa,
            ListV(<<IntV(1), Sa>>), MapV(<< <<Sa, IntV(1)>> >>), TypeV(TInt), TypeV(TStr)}
SmallPool == {IntV(0), IntV(2), None, Sa, ListV(<<Sa>>), TypeV(TInt)}
ItemU == {IntV(0), IntV(1), IntV(2), IntV(-1), V("float", 8, <<>>), V("float", 20, <<>>), BoolV(TRUE),
          BoolV(FALSE), None, StrV(<<>>), Sa, Sab, ListV(<<>>), ListV(<<IntV(1)>>),
          MapV(<<>>), MapV(<< <<Sa, IntV(1)>> >>), MapV(<< <<IntV(1), IntV(2)>>, <<Sb, Sa>> >>),
          ListV(<<Sa, IntV(1)>>)}
Classes == {<<"value", "none">>, <<"value", "length">>, <<"value", "dtype">>, <<"key", "none">>,
            <<"key", "length">>, <<"key", "dtype">>, <<"index", "none">>}

Seqs2(P) == {<<>>} \cup {<<a>> : a \in P} \cup {<<a, b>> : a, b \in P}
ActualsOf(fn) ==
  CASE SigKind(fn) = "none" -> {<<>>}
    [] SigKind(fn) = "varpos" -> Seqs2(SmallPool)
    [] SigKind(fn) = "varkw" -> {<<>>}
    [] Len(Params(fn)) = 1 -> {<<a>> : a \in ArgPool}
    [] OTHER -> {<<a, b>> : a, b \in SmallPool} \cup {<<a>> : a \in (IF fn = "equal_to_approx" THEN SmallPool ELSE {})}
AkwOf(fn) == IF fn = "items_contain"
             THEN {<<>>} \cup {<<Kw("a", <<97>>, v)>> : v \in SmallPool}
                  \cup {<<Kw("a", <<97>>, v), Kw("b", <<98>>, w)>> : v, w \in {IntV(1), Sa}}
             ELSE {<<>>}
LeafU == UNION {UNION {{LET st == Store(fn, acts, akw) IN Leaf(cl[1], cl[2], fn, st.args, st.kw)
                          : acts \in ActualsOf(fn), akw \in AkwOf(fn)}
                       : fn \in FnsOf(cl[1], cl[2])} : cl \in Classes}

VARIABLES leaf, item
Init == leaf \in LeafU /\ item \in ItemU
Next == UNCHANGED <<leaf, item>>

MechEqualsMeaning ==
  LET f == LeafFlags(leaf, item, TRUE)  h == LeafHolds(leaf, item)
  IN h = "U" \/ FlagsResult(f) = (h = "T")
NeverAborts == ~LeafFlags(leaf, item, CatchAll).raised
\* at most one of the three flags is set, and a pre-processor error hides the callable
FlagsExclusive ==
  LET f == LeafFlags(leaf, item, TRUE) IN
  (f.ppe => ~f.ce /\ ~f.cf) /\ ~(f.ce /\ f.cf)
=============================================================================
