CONSTANT EscapePathKeys = TRUE
CONSTANT Shard = 0
CONSTANT NShards = 1
INIT Init
NEXT Next
INVARIANT Emit
CHECK_DEADLOCK FALSE
