-------------------------------- MODULE Rule --------------------------------
(***************************************************************************)
(* Rules: testing a rule against a document (valida/rules.py RuleTest),    *)
(* resolution of data-path arguments against the validated document        *)
(* (conditions.py PreparedConditionCallable), casts (Rule.test), and the   *)
(* failure-reason mechanism (data.py get_failure_by_index).                *)
(*                                                                         *)
(*   rule == [path, cond, cast]   cast == << <<fromTypeIdx, castName>> >>  *)
(***************************************************************************)
EXTENDS Build

RuleT(path, cond, cast) == [path |-> path, cond |-> cond, cast |-> cast]

(***************************************************************************)
(* C17: a data-path argument means the value at that path in the          *)
(* validated document.  NestedArgs = TRUE is the intended design (path     *)
(* arguments are resolved wherever they occur in an argument); FALSE is    *)
(* the as-coded deviation (only top-level arguments).                      *)
(***************************************************************************)
IsPathArg(v) == v.k \in {"dpath", "rdpath"}
ArgPath(v) == IF v.k = "rdpath" THEN MkPathT(v.xs[1].rparts, v.xs[1].dt, v.xs[1].mt) ELSE v.xs[1]

RECURSIVE SubstVal(_, _, _, _)
SubstVal(v, d, nested, top) ==
  IF IsPathArg(v) THEN
       IF top \/ nested
       THEN LET g == GetData(ArgPath(v), d, FALSE) IN
            IF g.status = "ok" THEN g.v
            ELSE IF g.status = "raised:ValueError" THEN V("argraises", 0, <<>>)     \* .single() with several matches
            ELSE V("unconstrained", 0, <<>>)
       ELSE v
  ELSE IF v.k \in {"list", "tuple"} THEN V(v.k, 0, [i \in 1..Len(v.xs) |-> SubstVal(v.xs[i], d, nested, FALSE)])
  ELSE IF v.k = "map" THEN MapV([i \in 1..Len(v.xs) |-> <<v.xs[i][1], SubstVal(v.xs[i][2], d, nested, FALSE)>>])
  ELSE v
RECURSIVE HasUnc(_)
HasUnc(v) == \/ v.k = "unconstrained"
             \/ (v.k \in {"list", "tuple"} /\ \E i \in 1..Len(v.xs) : HasUnc(v.xs[i]))
             \/ (v.k = "map" /\ \E i \in 1..Len(v.xs) : HasUnc(v.xs[i][2]))
\* an argument whose resolution raises (ValueError of .single()): the callable is never reached, the exception is a
\* callable error of that leaf - the item fails it, nothing propagates
RECURSIVE HasArgRaise(_)
HasArgRaise(v) == \/ v.k = "argraises"
                  \/ (v.k \in {"list", "tuple"} /\ \E i \in 1..Len(v.xs) : HasArgRaise(v.xs[i]))
                  \/ (v.k = "map" /\ \E i \in 1..Len(v.xs) : HasArgRaise(v.xs[i][2]))
LeafArgRaises(c) == (\E i \in 1..Len(c.args) : HasArgRaise(c.args[i])) \/ (\E i \in 1..Len(c.kw) : HasArgRaise(c.kw[i].v))
\* a leaf of the same class that no item satisfies and that never aborts: `x < None`
FailingLeaf(c) == [c EXCEPT !.fn = "less_than", !.args = <<>>, !.kw = KwValue(None)]
RECURSIVE HasPathArgV(_)
HasPathArgV(v) == \/ IsPathArg(v)
                  \/ (v.k \in {"list", "tuple"} /\ \E i \in 1..Len(v.xs) : HasPathArgV(v.xs[i]))
                  \/ (v.k = "map" /\ \E i \in 1..Len(v.xs) : HasPathArgV(v.xs[i][2]))

RECURSIVE SubstTree(_, _, _)
SubstTree(c, d, nested) ==
  CASE c.t = "null" -> c
    [] c.t = "leaf" -> LET s == [c EXCEPT !.args = [i \in 1..Len(c.args) |-> SubstVal(c.args[i], d, nested, TRUE)],
                                          !.kw = [i \in 1..Len(c.kw) |-> Kw(c.kw[i].name, c.kw[i].nc, SubstVal(c.kw[i].v, d, nested, TRUE))]]
                       IN IF LeafArgRaises(s) /\ ~((\E i \in 1..Len(s.args) : HasUnc(s.args[i])) \/ (\E i \in 1..Len(s.kw) : HasUnc(s.kw[i].v)))
                          THEN FailingLeaf(c) ELSE s
    [] OTHER -> Bin(c.t, SubstTree(c.l, d, nested), SubstTree(c.r, d, nested))
RECURSIVE TreeUnc(_)
TreeUnc(c) == CASE c.t = "null" -> FALSE
                [] c.t = "leaf" -> (\E i \in 1..Len(c.args) : HasUnc(c.args[i]))
                                   \/ (\E i \in 1..Len(c.kw) : HasUnc(c.kw[i].v))
                [] OTHER -> TreeUnc(c.l) \/ TreeUnc(c.r)

(***************************************************************************)
(* Selection of a rule path: sequence of <<value, concrete path>>          *)
(***************************************************************************)
Select(path, d) == IF path.parts = <<>> THEN << <<d, <<>>>> >> ELSE ResolveDecl(path.parts, d)
SelectUnc(path, d) == path.parts # <<>> /\ WalkU(d, path.parts)

(***************************************************************************)
(* MEANING of a rule test on document `judged`, path arguments resolved    *)
(* against `src` (the same document in a plain rule test).                 *)
(*   [u, tested, valid, fails: Seq(<<value, path>>)]                       *)
(***************************************************************************)
RuleTest(rule, judged, src, nested) ==
  LET R == Select(rule.path, judged)
      c == SubstTree(rule.cond, src, nested)
      os == [i \in 1..Len(R) |-> EvalTree(c, IntV(i - 1), R[i][1])]
  IN [u |-> SelectUnc(rule.path, judged) \/ TreeUnc(c) \/ (\E i \in 1..Len(R) : os[i] = "U")
            \/ rule.path.dt # "none" \/ rule.path.mt # "none" \/ ~IsValueLike(rule.cond),
      tested |-> R # <<>>,
      valid |-> \A i \in 1..Len(R) : os[i] = "T",
      fails |-> LET fi == SelectSeq([i \in 1..Len(R) |-> i], LAMBDA i : os[i] # "T")
                IN [j \in 1..Len(fi) |-> R[fi[j]]],
      failidx |-> SelectSeq([i \in 1..Len(R) |-> i], LAMBDA i : os[i] # "T"),
      sel |-> R]

(***************************************************************************)
(* MECHANISM of the failure reasons (FilteredDataLike.get_failure_by_index)*)
(* one reason per truth-table row that is not "and"/"or" and has a flag    *)
(* set for the item: leaf rows carry (ppe | ce | cf), combination rows     *)
(* carry the disjunction of their operands' ppe / ce and cf = not result.  *)
(***************************************************************************)
\* per sub-tree: the flags of its last truth-table row (pre-processor error / callable error are the DISJUNCTION of the
\* operands' flags, so an xor row is flagged - and reported - when an operand errored even if the xor itself holds;
\* cf = not result) and the number of reported rows (leaf and xor rows with a flag set)
RECURSIVE RowFlags(_, _, _)
RowFlags(c, k, v) ==
  CASE c.t = "null" -> [ppe |-> FALSE, ce |-> FALSE, res |-> TRUE, n |-> 0]
    [] c.t = "leaf" -> LET f == LeafFlags(c, IF c.datum = "value" THEN v ELSE k, TRUE) IN
                       [ppe |-> f.ppe, ce |-> f.ce, res |-> FlagsResult(f), n |-> IF f.ppe \/ f.ce \/ f.cf THEN 1 ELSE 0]
    [] OTHER -> LET a == RowFlags(c.l, k, v)  b == RowFlags(c.r, k, v)
                    res == CASE c.t = "and" -> a.res /\ b.res [] c.t = "or" -> a.res \/ b.res [] OTHER -> a.res # b.res
                    ppe == a.ppe \/ b.ppe  ce == a.ce \/ b.ce
                IN [ppe |-> ppe, ce |-> ce, res |-> res,
                    n |-> a.n + b.n + (IF c.t = "xor" /\ (ppe \/ ce \/ ~res) THEN 1 ELSE 0)]
ReasonCount(c, k, v) == RowFlags(c, k, v).n

(***************************************************************************)
(* MECHANISM of the (value, path) wrapper: the Data wrapper holds pairs    *)
(* until the first leaf that filters strips them (data_has_paths is handed *)
(* to the first child only, recursively).  Returns the sequence of what    *)
(* each leaf, in evaluation order, sees as the datum of item 1: "pair" or  *)
(* "value".  SecondChildStrips models a (wrong) variant for vacuity.       *)
(***************************************************************************)
RECURSIVE LeafViews(_, _, _)
LeafViews(c, hasPaths, stripped) ==
  \* returns [views, stripped]
  CASE c.t \in {"null", "leaf"} ->
         [views |-> <<IF stripped \/ hasPaths THEN "value" ELSE "pair">>, stripped |-> stripped \/ hasPaths]
    [] OTHER -> LET a == LeafViews(c.l, hasPaths, stripped)
                    b == LeafViews(c.r, FALSE, a.stripped)
                IN [views |-> a.views \o b.views, stripped |-> b.stripped]
EveryLeafSeesValue(c) == LET r == LeafViews(c, TRUE, FALSE) IN \A i \in 1..Len(r.views) : r.views[i] = "value"

(***************************************************************************)
(* Casts                                                                   *)
(***************************************************************************)
\* [ok, v]: the cast applies to v (declared for its type) and succeeds
CastOne(cast, v) ==
  LET H == {j \in 1..Len(cast) : cast[j][1] = TypeIdx(v) \/ (cast[j][1] = TInt /\ v.k = "bool")} IN
  IF H = {} THEN [ok |-> FALSE, v |-> v, raised |-> "none"]
  ELSE LET nm == cast[CHOOSE j \in H : \A m \in H : j <= m][2] IN
       IF v.k # "str" THEN [ok |-> FALSE, v |-> v, raised |-> "U"]
       ELSE IF nm = "bool" THEN
              (IF Lower(v.xs) = LTrue THEN [ok |-> TRUE, v |-> BoolV(TRUE), raised |-> "none"]
               ELSE IF Lower(v.xs) = LFalse THEN [ok |-> TRUE, v |-> BoolV(FALSE), raised |-> "none"]
               ELSE [ok |-> FALSE, v |-> v, raised |-> "TypeError"])
       ELSE LET pi == ParseInt(v.xs) IN
            IF pi.ok THEN [ok |-> TRUE, v |-> IntV(pi.n), raised |-> "none"]
            ELSE [ok |-> FALSE, v |-> v, raised |-> "ValueError"]

\* apply the casts of one rule: selection on `orig`, successful casts written into `copy`
RECURSIVE CastFold(_, _, _, _)
CastFold(cast, R, i, copy) ==
  IF i > Len(R) THEN copy
  ELSE LET c1 == CastOne(cast, R[i][1]) IN
       CastFold(cast, R, i + 1, IF c1.ok /\ R[i][2] # <<>> THEN Put(copy, R[i][2], c1.v) ELSE copy)
ApplyCasts(rule, orig, copy) == CastFold(rule.cast, Select(rule.path, orig), 1, copy)
=============================================================================
