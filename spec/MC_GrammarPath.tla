---------------------------- MODULE MC_GrammarPath ----------------------------
(***************************************************************************)
(* Leg A for C10 / C12 / C13: on a TLA+-enumerated universe of parts,      *)
(* paths and rules: the full part spec written by UnparsePart parses back  *)
(* to the part (long forms), the dotted shorthand spelling parses to the   *)
(* same part, path suffixes parse in either order to the same path, rule   *)
(* specs with casts round-trip, and the serialisation is pure JSON.        *)
(***************************************************************************)
EXTENDS Unparse, TLC
CONSTANTS Shard, NShards

I(n) == IntV(n)
Sa == StrV(<<97>>)  Sb == StrV(<<98>>)
Lab == StrV(<<108, 97, 98>>)
KIn == Leaf("key", "none", "in_", <<>>, KwValue(ListV(<<Sa, I(1)>>)))
KLt == Leaf("key", "none", "less_than", <<>>, KwValue(Sb))
IGt == Leaf("index", "none", "greater_than", <<>>, KwValue(I(0)))
VInt == Leaf("value", "dtype", "equal_to", <<>>, KwValue(TypeV(TInt)))
VGt == Leaf("value", "none", "greater_than", <<>>, KwValue(I(0)))
CondsK == <<Null, KeyEq(Sa), KIn, KLt, Bin("or", KeyEq(Sa), KLt)>>
CondsI == <<Null, IndexEq(I(1)), IGt>>
CondsV == <<Null, VInt, Bin("and", VGt, VInt), ValueEq(I(3))>>
Labels == <<None, Lab>>
PartU ==
    [k \in 1..(Len(CondsK) * Len(CondsV) * 2) |->
       Part("map", AndN(CondsV[((((k - 1) \div 2)) % Len(CondsV)) + 1], CondsK[((k - 1) \div (2 * Len(CondsV))) + 1]),
            Null, Null, Labels[((k - 1) % 2) + 1])]
 \o [k \in 1..(Len(CondsI) * Len(CondsV) * 2) |->
       Part("list", AndN(CondsV[((((k - 1) \div 2)) % Len(CondsV)) + 1], CondsI[((k - 1) \div (2 * Len(CondsV))) + 1]),
            Null, Null, Labels[((k - 1) % 2) + 1])]
 \o [k \in 1..(Len(CondsK) * Len(CondsI) * Len(CondsV)) |->
       Part("mol", CondsV[((k - 1) % Len(CondsV)) + 1],
            CondsI[(((k - 1) \div Len(CondsV)) % Len(CondsI)) + 1],
            CondsK[((k - 1) \div (Len(CondsV) * Len(CondsI))) + 1], None)]
 \o <<Coerce(Sa), Coerce(I(0)), Coerce(V("float", 12, <<>>)), Coerce(BoolV(TRUE))>>
DtSeq == <<"none", "dtype", "length", "map_keys", "map_values">>
MtSeq == <<"none", "first", "last", "single", "all">>
CastSeq == << <<>>, << <<TStr, "bool">> >>, << <<TStr, "int">> >> >>

VARIABLES pi, qi, di, mi, ci
vars == <<pi, qi, di, mi, ci>>
Init == /\ pi \in {j \in 1..Len(PartU) : j % NShards = Shard} /\ qi \in {1, 2, Len(PartU) - 3, Len(PartU)} /\ di \in 1..Len(DtSeq)
        /\ mi \in 1..Len(MtSeq) /\ ci \in 1..Len(CastSeq)
        /\ (pi % 3 # 0 => (di = 1 /\ mi = 1 /\ ci = 1))
Next == UNCHANGED vars
P == PartU[pi]
Q == PartU[qi]
Parts2 == <<P, Q>>
Conc == PrimOf(P).ok /\ PrimOf(Q).ok
ThePath == PathT(Parts2, Conc, DtSeq[di], IF Conc THEN "none" ELSE MtSeq[mi])

PartRoundTrip ==
  LET js == UnparsePart(P, TRUE) IN
  /\ IsJson(js)
  /\ IF js.k = "map" THEN LET r == ParsePart(js) IN r.st = "ok" /\ PartSame(r.t, P)
     ELSE PartSame(Coerce(js), P)
PartsRoundTrip ==
  LET js == UnparseParts(ThePath, TRUE)  r == ParsePathParts(js.xs) IN
  IsJson(js) /\ r.st = "ok" /\ PathSame(r.t, [ThePath EXCEPT !.dt = "none", !.mt = "none"])
\* {"path.<dt>.<mt>": specs} and {"path.<mt>.<dt>": specs} both parse to the path with both modifiers
SuffixOrders ==
  LET specs == UnparseParts(ThePath, TRUE)
      dtc == IF ThePath.dt = "none" THEN <<>> ELSE <<Dot>> \o C(ThePath.dt)
      mtc == IF ThePath.mt = "none" THEN <<>> ELSE <<Dot>> \o C(ThePath.mt)
      a == ParsePath(MapV(<< <<StrV(PathCode \o dtc \o mtc), specs>> >>))
      b == ParsePath(MapV(<< <<StrV(Upper(PathCode \o mtc \o dtc)), specs>> >>))
  IN a.st = "ok" /\ b.st = "ok" /\ PathSame(a.t, ThePath) /\ PathSame(b.t, ThePath)
RuleRoundTrip ==
  LET rule == RuleT([ThePath EXCEPT !.dt = "none", !.mt = "none"], CondsV[(pi % Len(CondsV)) + 1], CastSeq[ci])
      js == UnparseRule(rule, TRUE)  r == ParseRule(js)
  IN IsJson(js) /\ r.st = "ok" /\ PathSame(r.t.path, rule.path) /\ TermSame(r.t.cond, rule.cond) /\ r.t.cast = rule.cast
=============================================================================
