---------------------------- MODULE Trace_Grammar ----------------------------
(***************************************************************************)
(* Leg B/C acceptor for C09, C10, C16, C19: recorded parses of the real    *)
(* valida judged against Grammar.tla.                                      *)
(*  fields: id, op, spec, delim, outcome, exc_allowed, proj (condition),   *)
(*  ppart, ppath, prule, prules, pdoc(s), spec_after, outcome2, eq12,      *)
(*  spec_after2, has_dsl, rterm (recipe), eq_dsl, eq_dsl_rev               *)
(***************************************************************************)
EXTENDS Grammar, Json, IOUtils, TLC

Events == ndJsonDeserialize(IOEnv.TRACE_FILE)
VARIABLE i
Init == i \in 1..Len(Events)
Next == UNCHANGED i

RuleSame(p, n) == PathSame(p.path, n.path) /\ TermSame(p.cond, n.cond) /\ p.cast = n.cast

\* [st, same]: what the specification makes of the spec, and whether the projection of the parsed object is that term
Judge(e) ==
  CASE e.op = "parse_cond" -> LET r == ParseCond(e.spec) IN [st |-> r.st, same |-> r.st = "ok" /\ TermSame(e.proj, r.t)]
    [] e.op = "parse_part" -> LET r == ParsePart(e.spec) IN [st |-> r.st, same |-> r.st = "ok" /\ PartSame(e.ppart, r.t)]
    [] e.op = "parse_parts" -> IF e.spec.k # "list" THEN [st |-> "U", same |-> FALSE] ELSE
                               LET r == ParsePathParts(e.spec.xs) IN [st |-> r.st, same |-> r.st = "ok" /\ PathSame(e.ppath, r.t)]
    [] e.op = "parse_path" -> LET r == ParsePath(e.spec) IN [st |-> r.st, same |-> r.st = "ok" /\ PathSame(e.ppath, r.t)]
    [] e.op = "from_str" -> IF e.spec.k # "str" THEN [st |-> "U", same |-> FALSE] ELSE
                            LET r == FromStr(e.spec.xs, e.delim) IN [st |-> r.st, same |-> r.st = "ok" /\ PathSame(e.ppath, r.t)]
    [] e.op = "parse_rule" -> LET r == ParseRule(e.spec) IN
                              [st |-> r.st, same |-> r.st = "ok" /\ RuleSame(e.prule, r.t) /\ SameU(e.pdoc, r.doc)]
    [] e.op = "parse_schema" ->
         IF e.spec.k # "list" THEN [st |-> "U", same |-> FALSE] ELSE
         LET r == ParseRules(e.spec.xs) IN
         [st |-> r.st,
          same |-> r.st = "ok" /\ LET o == StableOrder(r.t) IN
                   /\ Len(e.prules) = Len(o)
                   /\ \A j \in 1..Len(o) : RuleSame(e.prules[j], r.t[o[j]]) /\ SameU(e.pdocs[j], r.docs[o[j]])]

Clauses(e) ==
  LET j == Judge(e)  ok == e.outcome = "ok" IN
  << <<"WellFormedSpecAccepted", j.st = "ok" => ok>>,
     <<"ParsesToTheTermItMeans", (j.st = "ok" /\ ok) => j.same>>,
     <<"MalformedSpecRejected", j.st = "err" => ~ok>>,
     <<"OnlySpecErrors", ~ok => e.exc_allowed>>,
     <<"EqualToApiBuiltObject", (j.st = "ok" /\ ok /\ e.has_dsl) => (e.eq_dsl /\ e.eq_dsl_rev)>>,
     <<"SpecUnchangedByParsing", (j.st = "ok" /\ ok) => Same(e.spec_after, e.spec)>>,
     <<"SecondParseSucceeds", (j.st = "ok" /\ ok) => e.outcome2 = "ok">>,
     <<"SecondParseEqualsFirst", (j.st = "ok" /\ ok /\ e.outcome2 = "ok") => e.eq12>>,
     <<"SpecUnchangedBySecondParse", (j.st = "ok" /\ ok /\ e.outcome2 = "ok") => Same(e.spec_after2, e.spec)>>,
     \* (beyond the listed properties, judged only under VERIF_PROP = "EXTRA") the object built from a spec is a value of
     \* its own: when the caller goes on editing the containers of the spec the object stays what it was.  The pinned
     \* library does alias nested containers of literal arguments (DESIGN.md 11.4)
     <<"ParsedObjectIndependentOfLaterEdits", (j.st = "ok" /\ ok) => e.independent>> >>

\* which clauses belong to which property (VERIF_PROP)
Owned(name) ==
  LET p == IOEnv.VERIF_PROP IN
  CASE p = "C16" -> name \in {"SpecUnchangedByParsing", "SecondParseSucceeds", "SecondParseEqualsFirst", "SpecUnchangedBySecondParse"}
    [] p = "C19" -> name \in {"MalformedSpecRejected", "OnlySpecErrors"}
    [] p = "EXTRA" -> name \in {"ParsedObjectIndependentOfLaterEdits"}     \* no listed property speaks about it
    [] OTHER -> name \in {"WellFormedSpecAccepted", "ParsesToTheTermItMeans", "EqualToApiBuiltObject"}

Check == LET e == Events[i]
             cl == Clauses(e)
             bad == {j \in 1..Len(cl) : Owned(cl[j][1]) /\ ~cl[j][2]}
         IN \/ bad = {}
            \/ LET j == CHOOSE j \in bad : \A m \in bad : j <= m
               IN PrintT(<<"MISMATCH", e.id, cl[j][1]>>) /\ FALSE
=============================================================================
