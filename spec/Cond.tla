-------------------------------- MODULE Cond --------------------------------
(***************************************************************************)
(* Conditions: the documented meaning of the 32 comparison callables, the  *)
(* leaf mechanism (pre-processor -> callable -> three error flags ->       *)
(* result), condition trees, filtering of a container and the filtered     *)
(* view.  Mirrors valida/callables.py, valida/conditions.py (Condition.    *)
(* _filter, ConditionBinaryOp._filter) and valida/data.py FilteredData classes.  *)
(*                                                                         *)
(* Terms:                                                                  *)
(*   [t |-> "null"]                                                        *)
(*   [t |-> "leaf", datum \in {"value","key","index"},                     *)
(*    pre \in {"none","length","dtype"}, fn, args \in Seq(Val),            *)
(*    kw \in Seq([name, nc, v])]          (as *stored* by the DSL method)  *)
(*   [t \in {"and","or","xor"}, l, r]                                      *)
(***************************************************************************)
EXTENDS PyVal, Names

Null == [t |-> "null"]
Leaf(datum, pre, fn, args, kw) ==
  [t |-> "leaf", datum |-> datum, pre |-> pre, fn |-> fn, args |-> args, kw |-> kw]
Bin(op, l, r) == [t |-> op, l |-> l, r |-> r]
Kw(name, nc, v) == [name |-> name, nc |-> nc, v |-> v]
Ops == {"and", "or", "xor"}

\* keyword arguments are identified by the code points of their name (`name` is informative only:
\* a name parsed out of a spec has no TLA+ string)
KwHasC(kw, nc) == \E i \in 1..Len(kw) : kw[i].nc = nc
KwGetC(kw, nc) == kw[CHOOSE i \in 1..Len(kw) : kw[i].nc = nc].v
KwHas(kw, name) == KwHasC(kw, NC(name))
KwGet(kw, name) == KwGetC(kw, NC(name))

(***************************************************************************)
(* python any / all / sum over a sequence of outcomes, with short circuit  *)
(***************************************************************************)
RECURSIVE AllO(_, _)
AllO(os, i) == IF i > Len(os) THEN "T" ELSE IF os[i] = "T" THEN AllO(os, i + 1) ELSE os[i]
RECURSIVE AnyO(_, _)
AnyO(os, i) == IF i > Len(os) THEN "F" ELSE IF os[i] = "F" THEN AnyO(os, i + 1) ELSE os[i]
RECURSIVE CountT(_)
CountT(os) == IF os = <<>> THEN 0 ELSE (IF Head(os) = "T" THEN 1 ELSE 0) + CountT(Tail(os))
HasErr(os) == \E i \in 1..Len(os) : os[i] \in {"E", "X"}

KeyIn(d, k) == IF d.k # "map" THEN "E" ELSE PyIn(k, d)          \* k in d.keys()
KeysOutcomes(d, ks) == [i \in 1..Len(ks) |-> KeyIn(d, ks[i])]
AllHashable(ks) == \A i \in 1..Len(ks) : Hashable(ks[i])

\* iteration of the python value given as the `keys` argument
Iterable(v) == v.k \in {"list", "tuple", "str", "map"}
IterOf(v) == CASE v.k \in {"list", "tuple"} -> v.xs
               [] v.k = "str" -> [i \in 1..Len(v.xs) |-> StrV(<<v.xs[i]>>)]
               [] v.k = "map" -> [i \in 1..Len(v.xs) |-> v.xs[i][1]]
               [] OTHER -> <<>>

\* sum(k in d.keys() for k in keys) `cmp` N.  The generator is lazy: with an
\* empty iterable d.keys() is never touched; the property calls "keys of a
\* non-mapping" undefined, so that point is left unconstrained ("U").
CountCmp(d, keysVal, N, cmp) ==
  IF ~Iterable(keysVal) THEN "E"
  ELSE LET ks == IterOf(keysVal) IN
       IF d.k # "map" THEN (IF ks = <<>> THEN "U" ELSE "E")
       ELSE LET os == KeysOutcomes(d, ks) IN
            IF HasErr(os) THEN "E"
            ELSE LET c == IntV(CountT(os)) IN
                 CASE cmp = "eq" -> B(PyEq(c, N))
                   [] cmp = "ge" -> PyCmp("ge", c, N)
                   [] cmp = "le" -> PyCmp("le", c, N)

HasDPath(args, kw) == \/ \E i \in 1..Len(args) : args[i].k = "dpath"
                      \/ \E i \in 1..Len(kw) : kw[i].v.k = "dpath"

(***************************************************************************)
(* Documented meaning of callable fn applied to the (pre-processed) datum  *)
(* x with the stored arguments.                                            *)
(***************************************************************************)
Arg1(args, kw, name) == IF KwHas(kw, name) THEN KwGet(kw, name)
                        ELSE IF Len(args) > 0 THEN args[1] ELSE None
WellFormed(fn, args, kw) ==
  CASE fn \in {"equal_to", "not_equal_to", "less_than", "greater_than", "less_than_or_equal_to",
               "greater_than_or_equal_to", "in_", "not_in", "factor_of", "has_factor"} ->
         KwHas(kw, "value") \/ Len(args) = 1
    [] fn \in {"in_range", "not_in_range"} -> KwHas(kw, "lower") /\ KwHas(kw, "upper")
    [] fn = "equal_to_approx" -> KwHas(kw, "value") /\ KwHas(kw, "tolerance")
    [] fn = "keys_contain" -> KwHas(kw, "key")
    [] fn \in {"keys_contain_N_of", "keys_contain_at_least_N_of", "keys_contain_at_most_N_of"} ->
         KwHas(kw, "N") /\ KwHas(kw, "keys")
    [] fn \in {"keys_contain_at_least_one_of", "keys_contain_at_most_one_of"} -> KwHas(kw, "keys")
    [] OTHER -> TRUE

Meaning(fn, args, kw, x) ==
  LET v == Arg1(args, kw, "value") IN
  IF ~WellFormed(fn, args, kw) THEN "E"          \* python: missing / unexpected argument -> TypeError
  ELSE IF HasDPath(args, kw) THEN "U"            \* unresolved path argument: outside every property
  ELSE
  CASE fn = "equal_to" -> B(PyEq(x, v))
    [] fn = "not_equal_to" -> B(~PyEq(x, v))
    [] fn = "less_than" -> PyCmp("lt", x, v)
    [] fn = "greater_than" -> PyCmp("gt", x, v)
    [] fn = "less_than_or_equal_to" -> PyCmp("le", x, v)
    [] fn = "greater_than_or_equal_to" -> PyCmp("ge", x, v)
    [] fn = "in_" -> PyIn(x, v)
    [] fn = "not_in" -> Not(PyIn(x, v))
    [] fn = "in_range" -> PyInRange(x, KwGet(kw, "lower"), KwGet(kw, "upper"))
    [] fn = "not_in_range" -> Not(PyInRange(x, KwGet(kw, "lower"), KwGet(kw, "upper")))
    [] fn = "equal_to_approx" -> PyApprox(x, v, KwGet(kw, "tolerance"))
    [] fn = "factor_of" -> PyModIsZero(v, x)
    [] fn = "has_factor" -> PyModIsZero(x, v)
    [] fn = "truthy" -> B(Truthy(x))
    [] fn = "falsy" -> B(~Truthy(x))
    [] fn = "null" -> "T"
    [] fn = "is_instance" -> PyIsInstance(x, args)
    [] fn = "keys_contain" -> KeyIn(x, KwGet(kw, "key"))
    [] fn = "keys_contain_any_of" ->
         IF x.k # "map" THEN (IF args = <<>> THEN "U" ELSE "E") ELSE AnyO(KeysOutcomes(x, args), 1)
    [] fn = "keys_contain_all_of" ->
         IF x.k # "map" THEN (IF args = <<>> THEN "U" ELSE "E") ELSE AllO(KeysOutcomes(x, args), 1)
    [] fn = "keys_contain_N_of" -> CountCmp(x, KwGet(kw, "keys"), KwGet(kw, "N"), "eq")
    [] fn = "keys_contain_at_least_N_of" -> CountCmp(x, KwGet(kw, "keys"), KwGet(kw, "N"), "ge")
    [] fn = "keys_contain_at_most_N_of" -> CountCmp(x, KwGet(kw, "keys"), KwGet(kw, "N"), "le")
    [] fn = "keys_contain_one_of" -> CountCmp(x, V("tuple", 0, args), IntV(1), "eq")
    [] fn = "keys_contain_at_least_one_of" -> CountCmp(x, KwGet(kw, "keys"), IntV(1), "ge")
    [] fn = "keys_contain_at_most_one_of" -> CountCmp(x, KwGet(kw, "keys"), IntV(1), "le")
    [] fn = "keys_equal_to" ->
         IF x.k # "map" \/ ~AllHashable(args) THEN "E"
         ELSE B(/\ \A i \in 1..Len(x.xs) : \E j \in 1..Len(args) : PyEq(x.xs[i][1], args[j])
                /\ \A j \in 1..Len(args) : \E i \in 1..Len(x.xs) : PyEq(x.xs[i][1], args[j]))
    [] fn = "allowed_keys" ->
         IF x.k # "map" \/ ~AllHashable(args) THEN "E"
         ELSE B(\A i \in 1..Len(x.xs) : \E j \in 1..Len(args) : PyEq(x.xs[i][1], args[j]))
    [] fn = "required_keys" ->
         IF x.k # "map" \/ ~AllHashable(args) THEN "E"
         ELSE B(\A j \in 1..Len(args) : \E i \in 1..Len(x.xs) : PyEq(x.xs[i][1], args[j]))
    [] fn = "forbidden_keys" ->
         IF x.k # "map" \/ ~AllHashable(args) THEN "E"
         ELSE B(~\E j \in 1..Len(args) : \E i \in 1..Len(x.xs) : PyEq(x.xs[i][1], args[j]))
    [] fn = "keys_is_instance" ->
         IF x.k # "map" THEN "E"
         ELSE AllO([i \in 1..Len(x.xs) |-> PyIsInstance(x.xs[i][1], args)], 1)
    [] fn = "items_contain" ->
         IF x.k # "map" THEN (IF kw = <<>> THEN "U" ELSE "E")
         ELSE B(\A i \in 1..Len(kw) : \E j \in 1..Len(x.xs) :
                   PyEq(x.xs[j][1], StrV(kw[i].nc)) /\ PyEq(x.xs[j][2], kw[i].v))
    [] OTHER -> "X"

PreProc(pre, x) == CASE pre = "length" -> PyLen(x) [] pre = "dtype" -> TypeOf(x) [] OTHER -> x

(***************************************************************************)
(* Leaf MECHANISM (Condition._filter + FilteredData.__init__): three flags *)
(* per item; result = not (ppe or ce or cf).  CatchAll = TRUE is the       *)
(* intended design (every failure of the comparison on a datum is a        *)
(* per-item failure); CatchAll = FALSE is the as-coded deviation where     *)
(* only TypeError / AttributeError are caught and "X" aborts the call.     *)
(***************************************************************************)
LeafFlags(c, x, CatchAll) ==
  LET p == PreProc(c.pre, x) IN
  IF p.k = "err" THEN [ppe |-> TRUE, ce |-> FALSE, cf |-> FALSE, raised |-> FALSE, u |-> FALSE]
  ELSE LET m == Meaning(c.fn, c.args, c.kw, p) IN
       [ppe |-> FALSE,
        ce |-> m = "E" \/ (m = "X" /\ CatchAll),
        cf |-> m = "F",
        raised |-> m = "X" /\ ~CatchAll,
        u |-> m = "U"]
FlagsResult(f) == ~(f.ppe \/ f.ce \/ f.cf)

(***************************************************************************)
(* Leaf MEANING (the property): the item satisfies the leaf iff the        *)
(* comparison is defined on it and true.  Outcome "T" / "F" / "U".         *)
(***************************************************************************)
LeafHolds(c, x) ==
  LET p == PreProc(c.pre, x) IN
  IF p.k = "err" THEN "F"
  ELSE LET m == Meaning(c.fn, c.args, c.kw, p) IN
       CASE m = "T" -> "T" [] m = "U" -> "U" [] OTHER -> "F"

(***************************************************************************)
(* Trees.  An item is a pair (key-or-index, value).                        *)
(***************************************************************************)
\* "U" (unconstrained) is strict: nothing is required of a combination with an unconstrained operand
O3And(a, b) == IF a = "U" \/ b = "U" THEN "U" ELSE B(a = "T" /\ b = "T")
O3Or(a, b)  == IF a = "U" \/ b = "U" THEN "U" ELSE B(a = "T" \/ b = "T")
O3Xor(a, b) == IF a = "U" \/ b = "U" THEN "U" ELSE B(a # b)
OpApply(op, a, b) == CASE op = "and" -> O3And(a, b) [] op = "or" -> O3Or(a, b) [] op = "xor" -> O3Xor(a, b)

RECURSIVE EvalTree(_, _, _)
EvalTree(c, k, v) ==
  CASE c.t = "null" -> "T"
    [] c.t = "leaf" -> LeafHolds(c, IF c.datum = "value" THEN v ELSE k)
    [] OTHER -> OpApply(c.t, EvalTree(c.l, k, v), EvalTree(c.r, k, v))

RECURSIVE Leaves(_)
Leaves(c) == CASE c.t = "null" -> <<c>> [] c.t = "leaf" -> <<c>> [] OTHER -> Leaves(c.l) \o Leaves(c.r)
RECURSIVE LeafKinds(_)     \* (never build sets of terms: TLC cannot compare heterogeneous records)
LeafKinds(c) == CASE c.t = "null" -> {"value"} [] c.t = "leaf" -> {c.datum}
                  [] OTHER -> LeafKinds(c.l) \cup LeafKinds(c.r)
IsValueLike(c) == LeafKinds(c) = {"value"}
IsKeyLike(c) == LeafKinds(c) = {"key"}
IsIndexLike(c) == LeafKinds(c) = {"index"}
MixesKeyIndex(c) == "key" \in LeafKinds(c) /\ "index" \in LeafKinds(c)
RECURSIVE TreeRaises(_, _, _, _)
TreeRaises(c, k, v, CatchAll) ==
  CASE c.t = "null" -> FALSE
    [] c.t = "leaf" -> LeafFlags(c, IF c.datum = "value" THEN v ELSE k, CatchAll).raised
    [] OTHER -> TreeRaises(c.l, k, v, CatchAll) \/ TreeRaises(c.r, k, v, CatchAll)

(***************************************************************************)
(* Filtering a container d (non-empty list or map) with tree c.            *)
(*   Refused: a top-level key-kind leaf on a list / index-kind leaf on a   *)
(*   map raises TypeError (KeyLike.filter / IndexLike.filter).             *)
(*   Silent : a key-kind (index-kind) leaf INSIDE a combination applied to *)
(*   a list (map) -- nothing is required, the item outcome is "U".         *)
(***************************************************************************)
Refused(c, d) == c.t = "leaf" /\ ((c.datum = "key" /\ d.k = "list") \/ (c.datum = "index" /\ d.k = "map"))
WrongKind(c, d) == ("key" \in LeafKinds(c) /\ d.k = "list") \/ ("index" \in LeafKinds(c) /\ d.k = "map")
Filter(c, d) == [i \in 1..Len(d.xs) |->
                   IF WrongKind(c, d) THEN "U" ELSE EvalTree(c, Keys(d)[i], Vals(d)[i])]
FilterRaises(c, d, CatchAll) == \E i \in 1..Len(d.xs) : TreeRaises(c, Keys(d)[i], Vals(d)[i], CatchAll)

\* Mechanism for a leaf over a container, item by item
FilterLeafMech(c, d, CatchAll) ==
  [i \in 1..Len(d.xs) |-> FlagsResult(LeafFlags(c, IF c.datum = "value" THEN Vals(d)[i] ELSE Keys(d)[i], CatchAll))]

(***************************************************************************)
(* The filtered view induced by a Boolean result sequence.                 *)
(***************************************************************************)
RECURSIVE SelIdx(_, _, _)     \* 1-based positions i (from i0) with res[i] = want
SelIdx(res, i0, want) == IF i0 > Len(res) THEN <<>>
                         ELSE (IF res[i0] = want THEN <<i0>> ELSE <<>>) \o SelIdx(res, i0 + 1, want)
ViewData(d, res) == LET s == SelIdx(res, 1, TRUE) IN [j \in 1..Len(s) |-> Vals(d)[s[j]]]
ViewKeys(d, res) == LET s == SelIdx(res, 1, TRUE) IN [j \in 1..Len(s) |-> Keys(d)[s[j]]]
ViewFail(res) == LET s == SelIdx(res, 1, FALSE) IN [j \in 1..Len(s) |-> s[j] - 1]

\* observed Boolean sequence agrees with an expected outcome sequence ("U" = anything)
Agrees(obs, exp) == Len(obs) = Len(exp) /\ \A i \in 1..Len(exp) : exp[i] = "U" \/ obs[i] = (exp[i] = "T")
SameSeq(a, b) == Len(a) = Len(b) /\ \A i \in 1..Len(a) : Same(a[i], b[i])
=============================================================================
