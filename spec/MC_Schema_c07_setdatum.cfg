CONSTANT MaxRules = 2
CONSTANT Pool = "cast"
CONSTANT WriteBackUncast = FALSE
CONSTANT NestedArgs = TRUE
CONSTANT CatchAll = TRUE
CONSTANT CatchValueError = TRUE
CONSTANT SetDatumAnyKey = FALSE
CONSTANT Shard = 0
CONSTANT NShards = 1
INIT Init
NEXT Next
CHECK_DEADLOCK FALSE
INVARIANT NeverAborts
