"""Regenerates the table of section 13 of DESIGN.md (between the table header and the `harness/seeded.py confirm` line)
from /verif/seeded/*/meta.json."""
import json
import os
import re

VERIF = os.path.dirname(os.path.dirname(os.path.abspath(__file__)))


def row(name):
    m = json.load(open(os.path.join(VERIF, "seeded", name, "meta.json")))
    what = re.sub(r"\s+", " ", (m.get("what_it_needs") or "").replace("\n\n", " - ")).replace("|", "/").replace("- - ", "- ").strip()[:200]
    clauses = []
    for k in m.get("own_check_violations", []):
        try:
            c = json.loads(k).get("clause")
        except Exception:
            c = None
        if c and c not in clauses:
            clauses.append(c)
    hist = m.get("history") or "caught by the quick check as it stood"
    return f"| {name} | {m['property']} | {what} | {', '.join(clauses)} | {hist.replace('|', '/')} |"


def main():
    names = sorted(os.listdir(os.path.join(VERIF, "seeded")))
    p = os.path.join(VERIF, "DESIGN.md")
    s = open(p).read()
    head = "| change | property | what it is / what it needs (from the author's notes) | rejecting clause(s) | history |\n|---|---|---|---|---|\n"
    a = s.index(head) + len(head)
    b = s.index("\n`harness/seeded.py confirm <name>`")
    s = s[:a] + "\n".join(row(n) for n in names) + "\n" + s[b:]
    open(p, "w").write(s)
    missed = [n for n in names if "MISSED" in (json.load(open(os.path.join(VERIF, "seeded", n, "meta.json"))).get("history") or "")]
    print(len(names), "changes;", len(missed), "initially missed:", missed)


if __name__ == "__main__":
    main()
