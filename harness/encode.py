"""Projection of real Python / valida objects into the abstract encoding of
spec/PyVal.tla and spec/Cond.tla (DESIGN.md 3.2, 3.4).

Nothing here goes through valida's own __eq__, __repr__, to_json_like or any
other method under test: only attribute reads and type() checks.
"""
import pathlib

MAX_INT = 2 ** 31 - 1          # ints: everything TLC can hold (PyVal.tla works on <<floor, eighths>> pairs)
MAX_FLOAT8 = 2 ** 30 - 8          # floats: |value| * 8 below 2^30
ALPHABET = set(
    "abcdefghijklmnopqrstuvwxyzABCDEFGHIJKLMNOPQRSTUVWXYZ0123456789 _-+./\\<>&\"'`:,()[]{}=#!?*|@;~^$\n"
    "\t\r\x0b\x0c\x1c\x1d\x1e\x1f"
    "\u017f\u00c9\u00e9\u00df\u0663\u2003\u00a0\uff13"      # long s, E-acute, e-acute, sharp s, arabic-indic 3, em space, nbsp, fullwidth 3
)
TYPE_INDEX = {int: 1, float: 2, str: 3, list: 4, dict: 5, bool: 6, type(None): 7, pathlib.Path: 8, tuple: 9}
INDEX_TYPE = {v: k for k, v in TYPE_INDEX.items()}
EPS = 1e-8


class Unencodable(Exception):
    pass


def V(k, n=0, xs=None):
    return {"k": k, "n": n, "xs": xs if xs is not None else []}


def enc_str(s):
    for ch in s:
        if ch not in ALPHABET:
            raise Unencodable(f"character {ch!r} outside the universe")
    return V("str", 0, [ord(c) for c in s])


def enc_val(x, depth=0):
    """Python value -> abstract value record."""
    import valida.datapath as vdp

    if depth > 60:
        raise Unencodable("too deep")
    if x is None:
        return V("none")
    if isinstance(x, bool):
        return V("bool", 1 if x else 0)
    if isinstance(x, int):
        if abs(x) > MAX_INT:
            raise Unencodable("int out of range")
        return V("int", x)
    if isinstance(x, float):
        if x == EPS:
            return V("eps")
        if x != x or x in (float("inf"), float("-inf")):
            raise Unencodable("nan/inf")
        e = x * 8
        if e != int(e) or abs(e) > MAX_FLOAT8:
            raise Unencodable("float off the 1/8 grid")
        return V("float", int(e))
    if isinstance(x, str):
        return enc_str(x)
    if isinstance(x, list):
        return V("list", 0, [enc_val(i, depth + 1) for i in x])
    if isinstance(x, tuple):
        return V("tuple", 0, [enc_val(i, depth + 1) for i in x])
    if isinstance(x, dict):
        return V("map", 0, [[enc_val(k, depth + 1), enc_val(v, depth + 1)] for k, v in x.items()])
    if isinstance(x, type):
        if x in TYPE_INDEX:
            return V("type", TYPE_INDEX[x])
        raise Unencodable(f"type {x!r}")
    if isinstance(x, vdp.DataPath):
        return V("dpath", 0, [enc_path(x)])
    raise Unencodable(f"value of type {type(x)!r}")


def dec_val(v):
    """abstract value record -> Python value (inverse of enc_val on the universe)."""
    k = v["k"]
    if k == "none":
        return None
    if k == "bool":
        return bool(v["n"])
    if k == "int":
        return v["n"]
    if k == "float":
        return v["n"] / 8
    if k == "eps":
        return EPS
    if k == "str":
        return "".join(chr(c) for c in v["xs"])
    if k == "list":
        return [dec_val(i) for i in v["xs"]]
    if k == "tuple":
        return tuple(dec_val(i) for i in v["xs"])
    if k == "map":
        return {dec_val(p[0]): dec_val(p[1]) for p in v["xs"]}
    if k == "type":
        return INDEX_TYPE[v["n"]]
    raise ValueError(k)


# ------------------------------------------------------------------ conditions
_CLS = None


def _classes():
    global _CLS
    if _CLS is None:
        import valida.conditions as c

        _CLS = {
            c.Value: ("value", "none"),
            c.ValueLength: ("value", "length"),
            c.ValueDataType: ("value", "dtype"),
            c.Key: ("key", "none"),
            c.KeyLength: ("key", "length"),
            c.KeyDataType: ("key", "dtype"),
            c.Index: ("index", "none"),
        }
    return _CLS


def enc_cond(c, depth=0):
    import valida.conditions as vc

    if depth > 40:
        raise Unencodable("condition too deep (cyclic?)")
    if type(c) is vc.NullCondition:
        return {"t": "null"}
    if isinstance(c, vc.ConditionBinaryOp):
        op = {vc.ConditionAnd: "and", vc.ConditionOr: "or", vc.ConditionXor: "xor"}[type(c)]
        ch = c.children
        if len(ch) != 2:
            raise Unencodable("combination without two children")
        return {"t": op, "l": enc_cond(ch[0], depth + 1), "r": enc_cond(ch[1], depth + 1)}
    cls = _classes().get(type(c))
    if cls is None:
        raise Unencodable(f"condition class {type(c)!r}")
    call = c.callable
    return {
        "t": "leaf",
        "datum": cls[0],
        "pre": cls[1],
        "fn": getattr(call.func, "__verif_fn__", call.func.__name__),     # harness lambdas carry their DSL meaning
        "args": [enc_val(a) for a in call.args],
        "kw": [{"name": k, "nc": [ord(ch) for ch in k], "v": enc_val(v)} for k, v in call.kwargs.items()],
    }


# ------------------------------------------------------------------ paths
def enc_part(p):
    import valida.datapath as vdp

    null = {"t": "null"}
    lab = p.label
    label = V("none") if lab is None else enc_val(lab)
    if type(p) is vdp.MapValue:
        return {"pk": "map", "cond": enc_cond(p.condition), "lcond": null, "mcond": null, "label": label}
    if type(p) is vdp.ListValue:
        return {"pk": "list", "cond": enc_cond(p.condition), "lcond": null, "mcond": null, "label": label}
    if type(p) is vdp.MapOrListValue:
        return {
            "pk": "mol",
            "cond": enc_cond(p.condition),
            "lcond": enc_cond(p.list_condition),
            "mcond": enc_cond(p.map_condition),
            "label": label,
        }
    raise Unencodable(f"part {type(p)!r}")


DT = {None: "none", 1: "dtype", 2: "length", 3: "map_keys", 4: "map_values"}
MT = {None: "none", 1: "first", 2: "last", 3: "single", 4: "all", 5: "any"}


def enc_path(p):
    return {
        "parts": [enc_part(i) for i in p.parts],
        "concrete": bool(p.is_concrete),
        "dt": DT[p.DATUM_TYPE.value],
        "mt": MT[p.MULTI_TYPE.value],
    }


def enc_cast(cast):
    """cast table {type: func} -> [[fromTypeIdx, castName], ...]"""
    import valida.casting as vc

    out = []
    for k, v in (cast or {}).items():
        if v is vc.cast_string_to_bool:
            name = "bool"
        elif v is int:
            name = "int"
        else:
            raise Unencodable(f"cast function {v!r}")
        if k not in TYPE_INDEX:
            raise Unencodable(f"cast type {k!r}")
        out.append([TYPE_INDEX[k], name])
    return out


def enc_rule(r):
    return {"path": enc_path(r.path), "cond": enc_cond(r.condition), "cast": enc_cast(r.cast)}


def enc_schema(s):
    return {"rules": [enc_rule(r) for r in s.rules]}


# ------------------------------------------------------------------ type-exact snapshots
def snap(x):
    """Type-exact, order-exact structural snapshot (1, 1.0 and True differ)."""
    if isinstance(x, dict):
        return ("dict", tuple((snap(k), snap(v)) for k, v in x.items()))
    if isinstance(x, list):
        return ("list", tuple(snap(i) for i in x))
    if isinstance(x, tuple):
        return ("tuple", tuple(snap(i) for i in x))
    if isinstance(x, (bool, int, float, str, type(None))):
        return (type(x).__name__, x)
    if isinstance(x, type):
        return ("type", x.__name__)
    return ("obj", type(x).__name__, id(x))
