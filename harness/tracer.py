"""Harness-side observation of the real library (DESIGN.md 4.1).  Nothing in
/repo is touched: shims are assigned onto the valida classes at run time, in
harness processes only.

* write tracer: every attribute write / delete on an instance of a valida
  class is seen; a write to an object that existed before the current public
  call began is reported (this sees write-then-restore sequences that
  before/after snapshots miss).
* structural snapshots of valida object graphs (identity of every node
  included) and type-exact snapshots of documents / spec structures.
"""
import inspect
import weakref

_installed = False
_epoch = [0]
_registry = {}          # id -> (weakref, epoch of first sighting)
_writes = []            # (class name, attr) writes to pre-existing objects during the current call
_in_call = [False]
_classes = []


def _sight(obj):
    ent = _registry.get(id(obj))
    if ent is not None and ent[0]() is obj:
        return ent[1]
    try:
        _registry[id(obj)] = (weakref.ref(obj), _epoch[0])
    except TypeError:
        return _epoch[0]
    return _epoch[0]


def _make_setattr(orig):
    def __setattr__(self, name, value):
        born = _sight(self)
        if _in_call[0] and born < _epoch[0]:
            _writes.append((type(self).__name__, name))
        orig(self, name, value)

    return __setattr__


def _make_delattr(orig):
    def __delattr__(self, name):
        born = _sight(self)
        if _in_call[0] and born < _epoch[0]:
            _writes.append((type(self).__name__, "del " + name))
        orig(self, name)

    return __delattr__


def install():
    """Assign the shims onto every class defined in the valida package."""
    global _installed
    if _installed:
        return
    import valida
    import valida.conditions, valida.datapath, valida.rules, valida.schema, valida.data  # noqa

    import enum

    mods = [valida.conditions, valida.datapath, valida.rules, valida.schema, valida.data]
    for m in mods:
        for _, cls in inspect.getmembers(m, inspect.isclass):
            if cls.__module__ != m.__name__ or issubclass(cls, (enum.Enum, BaseException)):
                continue
            if cls in _classes:
                continue
            _classes.append(cls)
    for cls in _classes:
        if "__setattr__" not in cls.__dict__:
            cls.__setattr__ = _make_setattr(object.__setattr__)
        if "__delattr__" not in cls.__dict__:
            cls.__delattr__ = _make_delattr(object.__delattr__)
    _installed = True


def is_valida_obj(x):
    return any(type(x) is c for c in _classes)


def register(*roots):
    """Mark every valida object reachable from roots as existing now."""
    seen = set()

    def walk(x):
        if id(x) in seen:
            return
        seen.add(id(x))
        if is_valida_obj(x):
            _sight(x)
            for v in vars(x).values():
                walk(v)
        elif isinstance(x, (list, tuple)):
            for v in x:
                walk(v)
        elif isinstance(x, dict):
            for k, v in x.items():
                walk(k)
                walk(v)

    for r in roots:
        walk(r)


def begin_call():
    _epoch[0] += 1
    _writes.clear()
    _in_call[0] = True


def end_call():
    _in_call[0] = False
    w = sorted(set(_writes))
    _writes.clear()
    return [f"{c}.{a}" for c, a in w]


class watch:
    """with watch(objs=[...], docs=[...]) as w: <one public call> ;  then
    w.writes, w.objs_unchanged, w.docs_unchanged."""

    def __init__(self, objs=(), docs=()):
        self.objs = list(objs)
        self.docs = list(docs)

    def __enter__(self):
        install()
        register(*self.objs)
        self._so = [graph_snap(o) for o in self.objs]
        self._sd = [doc_snap(d) for d in self.docs]
        begin_call()
        return self

    def __exit__(self, *exc):
        self.writes = end_call()
        self.objs_unchanged = all(graph_snap(o) == s for o, s in zip(self.objs, self._so))
        self.docs_unchanged = all(doc_snap(d) == s for d, s in zip(self.docs, self._sd))
        return False


def doc_snap(x, _depth=0):
    """Type-exact, order-exact snapshot of plain data, with identity of containers."""
    if _depth > 200:
        return ("deep",)
    if isinstance(x, dict):
        return ("dict", id(x), tuple((doc_snap(k, _depth + 1), doc_snap(v, _depth + 1)) for k, v in x.items()))
    if isinstance(x, list):
        return ("list", id(x), tuple(doc_snap(i, _depth + 1) for i in x))
    if isinstance(x, tuple):
        return ("tuple", tuple(doc_snap(i, _depth + 1) for i in x))
    if isinstance(x, (bool, int, float, str, type(None))):
        return (type(x).__name__, x)
    if isinstance(x, type):
        return ("type", x.__name__)
    if is_valida_obj(x):
        return graph_snap(x, _depth + 1)
    return ("obj", type(x).__name__, id(x))


def graph_snap(x, _depth=0, _seen=None):
    """Structural snapshot of a valida object graph: class, identity and every
    instance attribute of every reachable valida object."""
    if _seen is None:
        _seen = set()
    if _depth > 200:
        return ("deep",)
    if is_valida_obj(x):
        if id(x) in _seen:
            return ("ref", id(x))
        _seen.add(id(x))
        return ("vobj", type(x).__name__, id(x),
                tuple((k, graph_snap(v, _depth + 1, _seen)) for k, v in sorted(vars(x).items())
                      if not k.startswith("_verif")))
    if isinstance(x, dict):
        return ("dict", id(x), tuple((graph_snap(k, _depth + 1, _seen), graph_snap(v, _depth + 1, _seen))
                                      for k, v in x.items()))
    if isinstance(x, list):
        return ("list", id(x), tuple(graph_snap(i, _depth + 1, _seen) for i in x))
    if isinstance(x, tuple):
        return ("tuple", tuple(graph_snap(i, _depth + 1, _seen) for i in x))
    if isinstance(x, (bool, int, float, str, type(None))):
        return (type(x).__name__, x)
    if isinstance(x, type):
        return ("type", x.__name__)
    if callable(x):
        return ("callable", getattr(x, "__name__", repr(x)))
    return ("obj", type(x).__name__, id(x))
