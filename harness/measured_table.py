"""Regenerates the table of section 11.1b of DESIGN.md (quick tier as measured) from /verif/evidence/*.json."""
import json
import os

VERIF = os.path.dirname(os.path.dirname(os.path.abspath(__file__)))
HEAD = ("| id | distinct states (TLC) | traces / events judged against the implementation | distinct non-trivial cases | "
        "wall s | legs | negative cfgs rejected |\n|---|---|---|---|---|---|---|\n")


def row(pid):
    e = json.load(open(os.path.join(VERIF, "evidence", pid + ".json")))
    c = e["coverage"]
    legs = "; ".join(f"{l['leg']} {l['distinct_states']}st" for l in c.get("legs", []))
    neg = "; ".join(n.split(" (")[0] for n in c.get("negative_cfgs_rejected", []))
    return (f"| {pid} | {c['states']} | {c['traces_validated_against_impl']} | {c['distinct_nontrivial']} | {e['wall_s']} | "
            f"{legs} | {neg} |"), e["seed"], e["tier"]


def main():
    p = os.path.join(VERIF, "DESIGN.md")
    s = open(p).read()
    a = s.index(HEAD) + len(HEAD)
    b = s.index("\n\nThorough tier (measured")
    rows = [row(f"C{i:02d}") for i in range(1, 21)]
    s = s[:a] + "\n".join(r[0] for r in rows) + s[b:]
    open(p, "w").write(s)
    print("seeds:", sorted({r[1] for r in rows}), "tiers:", sorted({r[2] for r in rows}))


if __name__ == "__main__":
    main()
