"""Which checks catch which stored change: runs EVERY check's quick tier against each stored change (scratch worktree per
change).  Usage: matrix.py <out.json> <name>...   (long: ~10 min per change)"""
import json
import os
import subprocess
import sys

VERIF = os.path.dirname(os.path.dirname(os.path.abspath(__file__)))
sys.path.insert(0, VERIF)
from harness.seeded import run, check, ALL  # noqa: E402

out, names = sys.argv[1], sys.argv[2:]
res = json.load(open(out)) if os.path.exists(out) else {}
for name in names:
    if name in res:
        continue
    dst = os.path.join(VERIF, "seeded", name)
    wt = f"/tmp/matrix-{os.getpid()}-{name}"
    run(["git", "-C", "/repo", "worktree", "add", "-q", "--detach", wt, "HEAD"])
    try:
        rc, o = run(["git", "-C", wt, "apply", os.path.join(dst, "patch.diff")])
        row = {}
        for q in ALL:
            r, v, k, o = check(q, wt)
            row[q] = r
        res[name] = row
        json.dump(res, open(out, "w"), indent=1)
        print(name, "caught by", [q for q, r in row.items() if r == 1], "machinery", [q for q, r in row.items() if r not in (0, 1)], flush=True)
    finally:
        run(["git", "-C", "/repo", "worktree", "remove", "--force", wt])
