"""Writes /verif/MANIFEST.json from the table below (keeps it valid and consistent)."""
import json
import os

VERIF = os.path.dirname(os.path.dirname(os.path.abspath(__file__)))
ALL = [f"C{i:02d}" for i in range(1, 21)]
NOTE = ("Trusted base: TLC 1.8 and the TLA+ modules in /verif/spec (PyVal is self-tested against CPython in "
        "setup_cmd), the attribute-reading projection harness/encode.py, the seeded drivers, CPython. Bounded "
        "universe (DESIGN.md 3.2): dyadic floats, |int| <= 1e8, ASCII strings without %, depth <= 4.")

BUILT = {
    "C01": dict(
        text=("TLC decides the property twice: (A) exhaustively on a TLA+-enumerated universe of (leaf, item) pairs the "
              "three-flag leaf mechanism equals the documented meaning and never aborts (negative configuration with the "
              "as-coded narrow except clause is rejected); (B) every recorded call of the real filter / Data.filter / "
              "test_all / DSL constructor (exhaustive small universe + seeded random) is one initial state of the "
              "acceptor Trace_Cond and is judged against Cond.tla: one Boolean per item, equal to the meaning, "
              "never aborting, view = partition."),
        design="DESIGN.md section 6 C01",
        technique="TLA+ spec (PyVal/Cond/Dsl) model-checked with TLC + TLC trace validation of recorded real calls",
    ),
    "C02": dict(
        text=("The condition/part heap machine (spec/CondHeap.tla: Combine with null short-circuit, part constructors, "
              "on-the-fly combination in MapOrListValue.filter) is model-checked exhaustively on a bounded instance for "
              "Immutable (action property), Acyclic, Pointwise and NullIdentity, with the as-coded re-initialisation "
              "switch rejected; every behaviour TLC enumerates (exhaustive depth 2, simulated deeper) is replayed step by "
              "step into real objects comparing identity structure, projections, attribute writes and filter results of "
              "every live object; seeded random trees built with the real operators are judged by the TLC acceptor."),
        design="DESIGN.md section 6 C02",
        technique="TLA+ heap state machine model-checked with TLC + TLC-generated behaviours replayed into the real objects + TLC trace validation",
    ),
    "C03": dict(
        text=("Path.tla defines resolution twice (frontier mechanism mirroring DataPath.get_data, and a declarative "
              "document-order walk); TLC checks them equal, truthful, distinct and in document order on every path of "
              "length <= 2 (3 thorough) over a 12-part pool x 4752 documents (sharded over 16 JVMs). Every recorded "
              "resolution of the real code (exhaustive small universe + seeded document-guided random paths with arbitrary "
              "condition trees, all five entry points, with and without paths) is judged by the acceptor Trace_Path: path "
              "construction/coercion, never raises, result = walk."),
        design="DESIGN.md section 6 C03",
        technique="TLA+ path semantics (mechanism = meaning) model-checked with TLC + TLC trace validation of recorded get_data calls",
    ),
    "C04": dict(
        text=("Same specification and acceptor as C03 with return_paths and every datum x multiplicity modifier in both "
              "application orders: TLC checks on the model the truthfulness of every (value, path) pair and the modifier "
              "laws (first/last/single/all against the full selection), and on every recorded real call that each "
              "reported path indexes the document to exactly the reported value, paths are pairwise distinct, the answer "
              "without paths has the same values in the same order, modifiers commute, multiplicity modifiers are "
              "refused on concrete paths."),
        design="DESIGN.md section 6 C04",
        technique="TLA+ path semantics model-checked with TLC + TLC trace validation of recorded get_data calls",
    ),
    "C05": dict(
        text=("Rule.tla states the meaning of a rule test (valid iff every selected node satisfies the condition; failures = "
              "the failing sub-sequence with true paths) and models the mechanisms the code uses (the (value, path) wrapper "
              "stripped by the first leaf, the truth-table reasons). TLC checks on every tree shape of <= 3 leaves x paths x "
              "documents that every leaf sees the node value, every failing node has a reason, failures are the failing "
              "sub-sequence (a wrong wrapper variant is rejected), and judges every recorded Rule.test of the real code."),
        design="DESIGN.md section 6 C05",
        technique="TLA+ rule semantics model-checked with TLC + TLC trace validation of recorded Rule.test calls",
    ),
    "C06": dict(
        text=("Schema.tla models validation as a sequential process over the stable shortest-path-first order. TLC checks "
              "on every sequence of <= 4 rules from a pool (all permutations of all multisets) x documents that verdict, "
              "failure count, tested count and the (rule, failing path) set are permutation invariant and the order is the "
              "stable sort; every recorded Schema.validate of random cast-free schemas under all / sampled permutations is "
              "judged against the process and against the base permutation; the report must be a string naming every "
              "failing path."),
        design="DESIGN.md section 6 C06",
        technique="TLA+ validation process model-checked with TLC (all permutations) + TLC trace validation of recorded validate calls",
    ),
    "C07": dict(
        text=("Totality of validation: in the process model no rule step can abort (three negative configurations, one per "
              "as-coded deviation, are rejected by TLC); every recorded Schema.validate / Rule.test of well-typed schemas "
              "over the full callable set, with and without casts, on hostile documents must return and give the "
              "specification's verdicts."),
        design="DESIGN.md section 6 C07",
        technique="TLA+ validation process model-checked with TLC + TLC trace validation of recorded calls on hostile documents",
    ),
    "C15": dict(
        text=("The cast fragment of the validation process (select on the input, replace successful casts in the shared "
              "private copy, judge on the copy) is model-checked for CastDataExact (every node outside the successful "
              "casts type-exactly as in the input) with the write-back-uncast deviation rejected; every recorded "
              "validation with casts is judged for cast_data, per-rule verdicts on the copy and Rule.test(d).data."),
        design="DESIGN.md section 6 C15",
        technique="TLA+ cast process model-checked with TLC + TLC trace validation of recorded calls",
    ),
    "C17": dict(
        text=("Rule.tla defines substitution of path-valued arguments (wherever they occur in an argument) by what the path "
              "selects in the validated document; TLC checks mechanism = substitution on the model (top-level-only "
              "resolution rejected) and judges every recorded test of cross-referencing rules against the substituted "
              "rule, additionally comparing with the real verdict of the literal-substituted rule."),
        design="DESIGN.md section 6 C17",
        technique="TLA+ substitution semantics model-checked with TLC + TLC trace validation of recorded Rule.test calls",
    ),
    "C08": dict(
        text=("ReadOnly.tla models callers (threads) running validate / Rule.test / get_data / filter calls as processes of "
              "sub-steps (private copy, resolve with on-the-fly condition combination, cast write-back, judge) over a shared "
              "schema and shared documents; TLC explores all sub-step interleavings of 2 threads for Immutable, "
              "DocsUnchanged, Repeatable (result = result on fresh objects) and termination of every call, rejecting the "
              "re-initialisation and cast-in-place deviations. TLC-generated call sequences are replayed on shared real "
              "objects sequentially (attribute-write tracer, structural snapshots with identity, result = spec = fresh) and "
              "from 4 threads; recorded calls of the C01-C07/C15/C17 drivers are judged by TLC for an empty write set."),
        design="DESIGN.md section 6 C08",
        technique="TLA+ multi-caller process model checked with TLC (interleavings) + TLC-generated call sequences replayed on shared real objects + TLC trace validation of write sets",
    ),
    "C09": dict(
        text=("Grammar.tla is a TLA+ transcription of the condition spec language (tokenisation and lower-casing of the key, "
              "alias tables, type-name conversion, data-path detection in arguments, signature-driven argument dispatch, "
              "left fold of and/or/xor lists); Unparse.tla generates spelling variants. TLC checks on a term universe that "
              "every spelling parses back to the term; those TLC-generated spellings and seeded random spellings of random "
              "DSL recipes are parsed by the real from_spec and TLC compares the projection of the result with its own "
              "parse; the parsed object must == the DSL-built one in both directions and filter identically."),
        design="DESIGN.md section 6 C09",
        technique="TLA+ grammar of the spec language model-checked with TLC + TLC-generated spellings replayed into from_spec + TLC trace validation",
    ),
    "C10": dict(
        text=("Grammar.tla also transcribes the part, path, path-string, rule and schema parsers (exact-case part keys, long "
              "forms and dotted shorthands and the order in which they are and-combined, suffix aliases in either order, "
              "int/float ambiguity of path strings, cast lookup, doc normalisation). TLC checks part / path / rule round "
              "trips and suffix-order laws on a universe of 116 parts, and judges every recorded parse of seeded spellings "
              "(Python structures, YAML text and YAML file routes) against its own parse; the parsed object must == the "
              "API-built one."),
        design="DESIGN.md section 6 C10",
        technique="TLA+ grammar of part/path/rule specs model-checked with TLC + TLC trace validation of recorded parses",
    ),
    "C16": dict(
        text=("SpecStore.tla models the caller's spec structures as a store with identity in which several specs share "
              "sub-structures; parse calls must leave the store unchanged (action property) and repeated parses must give "
              "the same result (the consuming parsers of the pinned code are rejected by TLC). TLC-generated parse "
              "histories are replayed on real dicts/lists that share sub-structures, and every well-formed spec of the "
              "C09/C10/C17 generators is snapshotted type-exactly, parsed twice and judged by the TLC acceptor."),
        design="DESIGN.md section 6 C16",
        technique="TLA+ spec-store state machine model-checked with TLC + TLC-generated parse histories replayed on shared real structures + TLC trace validation",
    ),
    "C19": dict(
        text=("The parser model of Grammar.tla is total: TLC checks on 47 800 (structure, parser) pairs over valid, near-miss "
              "and attribute-name tokens that every parser yields ok / definite error / unconstrained and that each listed "
              "error class is a definite error. Recorded parses of 24 classes of injected errors and of random structural "
              "mutations of well-formed specs are judged: what the model calls a definite error must be rejected, and any "
              "rejection must use a Malformed* error, TypeError, ValueError or the KeyError naming a missing rule field."),
        design="DESIGN.md section 6 C19",
        technique="TLA+ grammar (total parser model) model-checked with TLC + TLC trace validation of recorded parses of malformed specs",
    ),
    "C11": dict(
        text=("Unparse.tla is the intended serialiser; TLC checks on a term universe (JSON-like, type and data-path arguments, "
              "path-looking literal mappings) that serialise -> parse gives back the term, the output is pure JSON and a "
              "fixed point (the un-escaped variant is rejected). Every condition of the C11 fragment generated by the seeded "
              "driver is serialised by the real to_json_like, pushed through json.dumps/json.loads, rebuilt and "
              "re-serialised; TLC parses the real output with Grammar.tla and compares it with the original term."),
        design="DESIGN.md section 6 C11",
        technique="TLA+ unparse/parse round-trip laws model-checked with TLC + TLC trace validation of real serialisations",
    ),
    "C12": dict(
        text=("TLC checks on a universe of 116 parts that full part specs parse back to the part; every path generated by the "
              "seeded driver (API-built or spec-built; non-equality key/index conditions, value conditions, combined "
              "conditions, labels) is serialised by the real to_part_specs (a refusal is accepted), pushed through JSON text "
              "and rebuilt; TLC parses the emitted specs itself and compares what the two path terms select, with concrete "
              "paths, on the probe documents; == is required when the original was built from specs."),
        design="DESIGN.md section 6 C12",
        technique="TLA+ part-spec round-trip laws model-checked with TLC + TLC trace validation of real serialisations (selection equality decided by the spec's resolver)",
    ),
    "C13": dict(
        text=("TLC checks on the model that rule specs with casts round-trip and are pure JSON; seeded rules and schemas (with "
              "and without casts) are serialised by the real to_json_like, pushed through real JSON text, rebuilt; TLC parses "
              "the real output with Grammar.tla and compares with the original rule terms (cast included); validity, "
              "failures and cast data of original and rebuilt objects are compared on 9 probe documents."),
        design="DESIGN.md section 6 C13",
        technique="TLA+ rule-spec round-trip laws model-checked with TLC + TLC trace validation of real serialisations",
    ),
    "C14": dict(
        text=("Equality.tla defines equality of conditions (commutative combinations), parts (all three conditions and the "
              "label), paths, rules and schemas, and the behaviour of a term on a document. TLC checks on all triples of a "
              "universe of conditions and parts that it is an equivalence implying identical behaviour (the as-coded "
              "map-or-list equality is rejected). For families {x, rebuilt, commuted, single-atom mutants} of real objects "
              "the full real == matrix and the real behaviour on probe documents are recorded and TLC checks reflexivity, "
              "symmetry, transitivity, rebuilt/commuted equal and == => identical behaviour (real, and of the projected "
              "terms under the specification)."),
        design="DESIGN.md section 6 C14",
        technique="TLA+ equality/behaviour relation model-checked with TLC (all triples) + TLC trace validation of recorded == matrices",
    ),
    "C18": dict(
        text=("AddSchema.tla is a state machine over rule objects with identity and schemas as sequences of rule ids; TLC "
              "checks every history of <= 3 additions for immutability of every existing rule object, only the target's "
              "rule list changing, sortedness and the judgement law (the aliasing variant is rejected). Every history TLC "
              "enumerates is replayed on real objects comparing, after each call, the projection of every schema, the "
              "attribute writes (only S.rules), identity-level snapshots of T's rules and validate() of every schema on "
              "every document; seeded random histories are compared with fresh re-rooted copies."),
        design="DESIGN.md section 6 C18",
        technique="TLA+ schema-heap state machine model-checked with TLC + TLC-generated histories replayed into real Schema/Rule objects",
    ),
    "C20": dict(
        text=("Tree.tla states which conditions are always applicable, which keys they name / require, the structural laws "
              "of the flat tree, and models the HTML output as a trace of open / close events accepted by a stack machine "
              "(TLC checks the machine accepts exactly the balanced sequences). For seeded prefix-closed schemas the flat and "
              "nested trees of every sub-tree root and the HTML (with / without anchor root) are observed; TLC judges each "
              "tree against the rule terms (every rule once with its condition and doc, parents precede and are prefixes, "
              "flat = nested, required iff an always-applicable required_keys names the key) and each tag trace with the "
              "stack machine; a strict tokeniser and substring tests decide that schema text appears only escaped."),
        design="DESIGN.md section 6 C20",
        technique="TLA+ tree laws and HTML stack machine checked with TLC + TLC trace validation of recorded trees and tag traces",
    ),
}


def main():
    checks = []
    for pid in ALL:
        if pid not in BUILT:
            continue
        b = BUILT[pid]
        checks.append({
            "property_id": pid,
            "quick_cmd": f"/venv/bin/python -B harness/check.py {pid} --tier quick",
            "thorough_cmd": f"/venv/bin/python -B harness/check.py {pid} --tier thorough",
            "evidence_file": f"/verif/evidence/{pid}.json",
            "replay_cmd_template": f"/venv/bin/python -B harness/check.py {pid} --replay {{path}}",
            "engine": "tlc",
            "level_claimed": {"category": "model_checking", "text": b["text"], "design_ref": b["design"]},
            "level_note": NOTE,
            "technique": b["technique"],
        })
    man = {
        "version": 1,
        "setup_cmd": "make -C /verif setup",
        "hooks": {
            "guard": "VALIDA_VERIF",
            "enable": ("no source hooks: valida is pure Python and sequential; the harness wraps the public API from "
                       "outside (write tracer shims are assigned onto the classes inside harness processes only). "
                       "Checks import valida from /repo's working tree (VALIDA_SRC overrides) with byte-code caching off."),
            "baseline_off_cmd": "cd /repo && /venv/bin/python -m pytest -ra -q -p no:cacheprovider --timeout=900",
            "source_commits": [],
            "add_only": True,
        },
        "engines": [{
            "name": "tlc",
            "path": "/verif/harness/tlc.py",
            "serves_properties": sorted(BUILT),
            "kind_free_text": ("explicit TLA+ specification in /verif/spec checked by TLC: bounded design instances (MC_*), "
                               "trace acceptors for recorded calls of the real code (Trace_*), behaviour generators "
                               "replayed into the real objects (Gen_*)"),
        }],
        "checks": checks,
        "notes": ("known_findings.json lists genuine defects (fixed by `fix:` commits in /repo, or open). "
                  "Exit 2 = machinery failure, never a verdict."),
        "not_applicable": [{"property_id": p, "reason": "check not built yet in this commit (work in progress; "
                            "the design in DESIGN.md section 6 applies the TLA+ technique to it)"}
                           for p in ALL if p not in BUILT],
    }
    with open(os.path.join(VERIF, "MANIFEST.json"), "w") as fh:
        json.dump(man, fh, indent=1)


if __name__ == "__main__":
    main()
