"""Seeded generators and small exhaustive enumerators (DESIGN.md 4.5).

Everything is a plain Python value / a recipe; real valida objects are built by
the drivers.  Generation is biased towards collisions: few distinct keys and
scalars, so that paths hit, conditions are sometimes true and equal keys of
different type meet."""
import itertools
import random

INTS = [0, 1, -1, 2, 3, 5, 10, -7, 4, 6, 100]
FLOATS = [0.0, 1.0, 0.5, 2.5, -1.5, 3.0, 0.125, 2.0]
STRS = ["", "a", "b", "ab", "abc", "1", "3", " 7 ", "x3", "true", "FALSE", "A", "0", "1.5", "a<b", "c", "-2", "1_0"]
STR_KEYS = ["a", "b", "c", "ab", "1", "A", ""]
IDENT_KEYS = ["a", "b", "c", "ab"]
OTHER_KEYS = [0, 1, 2, 1.5, True, False, None, -1, 2.0]
TYPES = [int, float, str, list, dict, bool]
# the WIDE pools: edges of the value space that the small pools above never reach (drawn with probability WIDE_P per
# scalar / key): large and negative numbers, integral floats, strings with upper case / every ASCII white-space
# character / signs / underscores / prefixes of other strings, and the words the library uses internally
WIDE_P = 0.07
INTS_WIDE = [17, 255, -100, 1000, 65536, 10 ** 6, -10 ** 6, -3, 7, 8, 9, 999999]
# HUGE numbers are only used where no `x in range(lo, hi)` with a non-int x can meet them as a bound (CPython scans
# such a range item by item: 2.5 in range(0, 1700000000) takes minutes)
INTS_HUGE = [1700000000, 1700000001, -1700000000, 2 ** 31 - 1, -(2 ** 31 - 1), 2 ** 27, 2 ** 27 + 1, 99999999]
FLOATS_WIDE = [1000000.5, -0.125, 1024.0, 7.875, -2.0, 10.0, 4.0, 100.0, 16777216.5, 134217000.0, -134217000.125, 3.0, 0.0, 1.0]
STRS_WIDE = ["True", "TRUE", " true", "false ", "tRuE", "+3", "-0", "007", "1__0", "_1", "1_", " 1 2 ", "\t3", "3\r\n", "0x1F",
             "1e3", "a b", "ABC", "Ab", "aB", "value", "path", "type", "condition", "key", "index", "length", "dtype", "None",
             "null", "aaaaaaaaaaaa", "\x1f5", " ", "abcd", "ba", "\x0b-7\x0c", "+ 3", "3 ", "33", "abcdefghijklmnopqrstuvwxyz_0123456789", "{}", "{a}", "$x",
             # a few non-ASCII characters with behaviour of their own under lower() / casefold() / strip() / int()
             "fal\u017fe", "TRUE\u2003", "\u00a07", "\u0663", "1\uff13", "\u00c9", "\u00e9t\u00e9", "stra\u00dfe", "\u2003true"]
LONG = "abcdefghijklmnopqrstuvwxyz_0123456789"      # longer than anything reprlib / textwrap / a column width leaves alone
STR_KEYS_WIDE = [LONG, LONG, "{}", "{x}", "${LO}", "{0}", "", "value", "path", "type", "a.b", "ab ", "abc", "0", "None", "true", "B", "aa", "condition", "key", " a"]
OTHER_KEYS_WIDE = [10, -2, 3, 2.5, 4, 0.5, 100, -1.5, 3.0]


# literal mapping arguments whose keys look like a path spec in ways beyond the plain lower-case "path": other letter
# cases (specification keys are read in any case), white space around, longer words, non-list values
PATHLIKE_EXTRA = [{"Path": ["a", 0]}, {"PATH.length": ["a"]}, {"b": 1, "Path": ["a"]}, {"Path": 3}, {" path": ["a"]}, {"path ": ["a"]},
                  {"pAthological": {"Path": [1]}}, [{"PATH": ["a"]}, 3], {"x": {"Path.First": ["a"]}}, {"path": "a"}, {"PATH": None},
                  {"path\t": ["a"]}, {"Path.length.first": ["a", 0]},
                  # "path" followed by a word character, as an item / a value one level down and at the top
                  [{"pathname": 1}, 3], {"b": {"paths": [1]}}, {"x": {"path_1": "a", "c": 2}}, {"pathname": "out.txt"},
                  [{"c": 1, "PathName": ["a"]}], {"k": {"path2": {"path": ["a"]}}},
                  # a mapping ITEM of a list argument whose VALUE is a mapping with a path-like key (two levels down)
                  [{"file": {"path": "/tmp/x"}}, 3], [{"b": {"path": [2]}}], [{"a": {"Path.length": ["a"]}}, "x"],
                  [{"file": {"path": ["a"], "mode": "r"}}],
                  # literal mappings whose keys are the PARAMETER names of callables: still literal values
                  {"value": 3}, {"value": [1, 2]}, {"key": "a"}, {"keys": ["a"]}, {"lower": 0, "upper": 2}, {"N": 1, "keys": ["a"]},
                  {"value": 3, "tolerance": 1}, {"value": {"value": 1}}, [{"value": 3}]]


# COINCIDENCES: after a document has been generated, scalars and keys drawn for conditions / paths / arguments are,
# now and then, taken from that document: one of its keys (at any depth), one of its scalar values, the length of one of
# its containers - so that "the same string as a key in the document AND as an argument" is not left to two independent
# draws from the pools
_CTX = {"atoms": [], "keys": []}
CTX_P = 0.1


def _note_document(doc):
    atoms, keys = [], []

    def walk(x, depth):
        if depth > 8:
            return
        if isinstance(x, dict):
            atoms.append(len(x))
            for k, v in x.items():
                keys.append(k)
                walk(v, depth + 1)
        elif isinstance(x, list):
            atoms.append(len(x))
            for v in x:
                walk(v, depth + 1)
        else:
            atoms.append(x)
    walk(doc, 0)
    _CTX["atoms"], _CTX["keys"] = atoms[:200], keys[:200]


def scalar(rng):
    if _CTX["atoms"] and rng.random() < CTX_P:
        pool = _CTX["atoms"] + _CTX["keys"]
        return rng.choice(pool)
    if rng.random() < WIDE_P:
        return rng.choice(rng.choice([INTS_WIDE, FLOATS_WIDE, STRS_WIDE, STRS_WIDE]))
    r = rng.random()
    if r < 0.30:
        return rng.choice(INTS)
    if r < 0.45:
        return rng.choice(FLOATS)
    if r < 0.55:
        return rng.choice([True, False])
    if r < 0.62:
        return None
    return rng.choice(STRS)


def key(rng, strish=0.7):
    if _CTX["keys"] and rng.random() < CTX_P:
        return rng.choice(_CTX["keys"] + [a for a in _CTX["atoms"] if isinstance(a, str)][:20])
    if rng.random() < WIDE_P:
        return rng.choice(STR_KEYS_WIDE if rng.random() < strish else OTHER_KEYS_WIDE)
    if rng.random() < strish:
        return rng.choice(STR_KEYS)
    return rng.choice(OTHER_KEYS)


def distinct_keys(rng, n, strish=0.7):
    out = []
    tries = 0
    while len(out) < n and tries < 50:
        tries += 1
        k = key(rng, strish)
        if not any(k == o for o in out):      # python ==: 1, 1.0, True collide
            out.append(k)
    return out


def value(rng, depth=2, maxlen=4):
    if depth <= 0 or rng.random() < 0.45:
        return scalar(rng)
    if maxlen <= 4 and rng.random() < 0.04:
        maxlen = 8                               # now and then a long container (positions >= 4, a last item far away)
    if rng.random() < 0.12:
        return twins(rng)
    if rng.random() < 0.5:
        return [value(rng, depth - 1, maxlen) for _ in range(rng.randint(0, maxlen))]
    ks = distinct_keys(rng, rng.randint(0, maxlen))
    return {k: value(rng, depth - 1, maxlen) for k in ks}


class ListSub(list):
    """a list subclass (as YAML round-trip loaders and many applications hand out)"""


def subclassify(x):
    """the same document with every mapping an OrderedDict and every list a list subclass: for the library these ARE
    mappings and lists (isinstance); only type(x) differs - so not to be combined with dtype conditions / modifiers"""
    import collections
    if isinstance(x, dict):
        return collections.OrderedDict((k, subclassify(v)) for k, v in x.items())
    if isinstance(x, list):
        return ListSub(subclassify(v) for v in x)
    return x


def twins(rng):
    """siblings that are == but of different type (True / 1 / 1.0, 0 / False / 0.0, 2 / 2.0), in random order"""
    base = rng.choice([[1, True, 1.0], [0, False, 0.0], [2, 2.0], [True, 1], [0.0, 0], [1.0, True, 1, 3]])
    out = list(base) + [scalar(rng) for _ in range(rng.randint(0, 2))]
    rng.shuffle(out)
    if rng.random() < 0.3:
        return {k: v for k, v in zip(["a", "b", "c", "ab", "A", "1"], out)}
    return out


def document(rng, depth=3, maxlen=4, strish=0.7):
    """non-empty list or mapping"""
    doc = _document(rng, depth, maxlen, strish)
    _note_document(doc)
    return doc


def _document(rng, depth, maxlen, strish):
    if rng.random() < 0.05:
        depth, maxlen = depth + 2, max(maxlen, 6)      # now and then a deep / long document
    if rng.random() < 0.03:
        # a LONG container (10+ items: two-digit indices, positions past any small threshold), items mostly scalars
        n = rng.randint(10, 13)
        if rng.random() < 0.6:
            return [value(rng, rng.choice([0, 0, 1]), 3) for _ in range(n)]
        return {("k%d" % j if j else "a"): value(rng, rng.choice([0, 0, 1]), 3) for j in range(n)}
    if rng.random() < 0.45:
        return [value(rng, depth - 1, maxlen) for _ in range(rng.randint(1, maxlen))]
    ks = distinct_keys(rng, rng.randint(1, maxlen), strish)
    return {k: value(rng, depth - 1, maxlen) for k in ks}


# ------------------------------------------------------------------ leaves
CLASSES = [("value", "none"), ("value", "length"), ("value", "dtype"), ("key", "none"), ("key", "length"),
           ("key", "dtype"), ("index", "none")]
GENERAL = ["equal_to", "not_equal_to", "less_than", "greater_than", "less_than_or_equal_to",
           "greater_than_or_equal_to", "in_", "not_in", "in_range", "not_in_range", "equal_to_approx",
           "factor_of", "has_factor", "truthy", "falsy", "null", "is_instance"]
MAPFNS = ["keys_contain", "keys_contain_any_of", "keys_contain_all_of", "keys_contain_N_of",
          "keys_contain_at_least_N_of", "keys_contain_at_most_N_of", "keys_contain_one_of",
          "keys_contain_at_least_one_of", "keys_contain_at_most_one_of", "keys_equal_to",
          "keys_is_instance", "items_contain", "allowed_keys", "required_keys", "forbidden_keys"]
ALLFNS = GENERAL + MAPFNS
VALUE1 = ["equal_to", "not_equal_to", "less_than", "greater_than", "less_than_or_equal_to",
          "greater_than_or_equal_to", "in_", "not_in"]
VARPOS_KEYS = ["keys_contain_any_of", "keys_contain_all_of", "keys_contain_one_of", "keys_equal_to",
               "allowed_keys", "required_keys", "forbidden_keys"]
N_OF = ["keys_contain_N_of", "keys_contain_at_least_N_of", "keys_contain_at_most_N_of"]


def fns_of(datum, pre):
    return ALLFNS if (pre == "none" and datum in ("value", "key")) else GENERAL


def cls_of(datum, pre):
    import valida.conditions as c

    return {("value", "none"): c.Value, ("value", "length"): c.ValueLength, ("value", "dtype"): c.ValueDataType,
            ("key", "none"): c.Key, ("key", "length"): c.KeyLength, ("key", "dtype"): c.KeyDataType,
            ("index", "none"): c.Index}[(datum, pre)]


def key_list(rng, ill=0.1):
    n = rng.randint(0, 3)
    ks = [key(rng, 0.6) for _ in range(n)]
    if rng.random() < 0.12:
        # keys that differ from an ordinary key only by white space / case (never to be normalised by anyone)
        ks.insert(rng.randint(0, len(ks)), rng.choice([" a", "ab ", "a\n", "\tb", "A", " ", "B ", "a b"]))
    if rng.random() < ill:
        ks.append(rng.choice([[1], {"a": 1}]))
    return ks


def leaf_args(rng, fn, pre="none", well_typed=False):
    """(actuals, akw) for the documented DSL signature of fn."""
    ill = 0.0 if well_typed else 0.15
    if fn in VALUE1:
        if pre == "dtype" and rng.random() < 0.8:
            if fn in ("in_", "not_in"):
                return [rng.sample(TYPES, rng.randint(0, 3))], {}
            return [rng.choice(TYPES)], {}
        if fn in ("in_", "not_in"):
            r = rng.random()
            if r < 0.1 and not well_typed:
                return [tuple(scalar(rng) for _ in range(rng.randint(0, 4)))], {}     # a tuple container
            if r < 0.55:
                return [[scalar(rng) for _ in range(rng.randint(0, 4))]], {}
            if r < 0.75:
                return [rng.choice(STRS)], {}
            if r < 0.9:
                ks = distinct_keys(rng, rng.randint(0, 3))
                return [{k: scalar(rng) for k in ks}], {}
            return [scalar(rng)], {}
        if not well_typed and rng.random() < 0.06:
            return [tuple(scalar(rng) for _ in range(rng.randint(0, 3)))], {}          # tuple-typed argument
        return [value(rng, 1) if rng.random() < 0.25 else scalar(rng)], {}
    if fn in ("in_range", "not_in_range"):
        lo = rng.randint(-3, 4)
        hi = lo + rng.randint(-1, 6)
        if rng.random() < ill:
            lo = rng.choice([1.0, "1", None, True])
        if rng.random() < 0.5:
            return [lo, hi], {}
        return [], {"lower": lo, "upper": hi}
    if fn == "equal_to_approx":
        v = rng.choice(INTS + FLOATS) if rng.random() > ill else rng.choice(["1", None, [1]])
        r = rng.random()
        if r < 0.4:
            return [v], {}
        tol = rng.choice([0.5, 1, 0.125, 2.5, 0.0]) if rng.random() > ill else rng.choice(["x", None])
        return ([v, tol], {}) if r < 0.7 else ([v], {"tolerance": tol})
    if fn in ("factor_of", "has_factor"):
        if rng.random() < ill:
            return [rng.choice(["a", None, [1], {"a": 1}])], {}
        if well_typed:
            return [rng.choice([1, 2, 3, 5, -2, 0.5, 10, 4])], {}
        return [rng.choice([0, 1, 2, 3, 5, -2, 0.5, 0.0, 10, True, False])], {}
    if fn in ("truthy", "falsy", "null"):
        return [], {}
    if fn in ("is_instance", "keys_is_instance"):
        ts = rng.sample(TYPES, rng.randint(0 if not well_typed else 1, 3))
        if rng.random() < ill:
            ts.insert(rng.randint(0, len(ts)), rng.choice([3, "int", None]))
        if not well_typed and ts and rng.random() < 0.12:
            j = rng.randrange(len(ts))
            ts = ts[:j] + [tuple(ts[j:])]          # isinstance accepts (nested) tuples of classes
        return ts, {}
    if fn == "keys_contain":
        return [key(rng, 0.6) if rng.random() > ill else [1]], {}
    if fn in VARPOS_KEYS:
        return key_list(rng, ill), {}
    if fn in N_OF:
        n = rng.randint(0, 3) if rng.random() > ill else rng.choice(["1", None, 1.0])
        ks = key_list(rng, ill)
        r = rng.random()
        if r < 0.1 and not well_typed:
            ks = rng.choice(["ab", None, 3, tuple(ks)])
        return ([n, ks], {}) if rng.random() < 0.5 else ([], {"N": n, "keys": ks})
    if fn in ("keys_contain_at_least_one_of", "keys_contain_at_most_one_of"):
        ks = key_list(rng, ill)
        if rng.random() < 0.1 and not well_typed:
            ks = rng.choice(["ab", None, 3])
        return [ks], {}
    if fn == "items_contain":
        names = rng.sample(IDENT_KEYS, rng.randint(0, 2))
        return [], {n: scalar(rng) for n in names}
    raise ValueError(fn)


def leaf_recipe(rng, kinds=None, well_typed=False, fns=None):
    datum, pre = rng.choice(kinds or CLASSES)
    pool = [f for f in fns_of(datum, pre) if fns is None or f in fns]
    fn = rng.choice(pool)
    actuals, akw = leaf_args(rng, fn, pre, well_typed)
    return {"datum": datum, "pre": pre, "fn": fn, "actuals": actuals, "akw": akw}


# CUSTOM callables (`Value(lambda x, value: x < value, value=2)`): the library accepts any callable; these have the
# meaning of a DSL callable (recorded in __verif_fn__ for the projection), but are anonymous functions - the library
# sees the name "<lambda>" for all of them
LAM_FUNCS = {"less_than": lambda x, value: x < value, "greater_than": lambda x, value: x > value,
             "equal_to": lambda x, value: x == value, "not_equal_to": lambda x, value: x != value,
             "less_than_or_equal_to": lambda x, value: x <= value, "greater_than_or_equal_to": lambda x, value: x >= value}
for _n, _f in LAM_FUNCS.items():
    _f.__verif_fn__ = _n


def lam_ok(rec):
    return rec["fn"] in LAM_FUNCS and len(rec["actuals"]) == 1 and not rec["akw"] and rec["pre"] in ("none", "length")


def build_leaf(rec):
    cls = cls_of(rec["datum"], rec["pre"])
    if rec.get("lam") and lam_ok(rec):
        return cls(LAM_FUNCS[rec["fn"]], value=rec["actuals"][0])
    return getattr(cls, rec["fn"])(*rec["actuals"], **rec["akw"])


def tree_recipe(rng, depth=3, kinds=None, well_typed=False, null_p=0.1, fns=None):
    """('leaf', rec) | ('null',) | (op, l, r)"""
    if depth >= 1 and rng.random() < 0.04:
        # the SAME condition object as both operands (c & c, c | c, c ^ c): what the combination means does not depend
        # on whether its operands are one object or two equal ones
        sub = tree_recipe(rng, depth - 1, kinds, well_typed, null_p, fns)
        return (rng.choice(["and", "or", "xor", "xor"]), sub, sub)
    if depth >= 2 and rng.random() < 0.04:
        # a CHAIN of 4-6 operands of one operator (left- or right-nested), as `a & b & c & d` or a long spec list gives
        op = rng.choice(["and", "or", "xor"])
        leaves = [tree_recipe(rng, 0, kinds, well_typed, null_p, fns) for _ in range(rng.randint(4, 6))]
        t = leaves[0]
        left = rng.random() < 0.5
        for x in leaves[1:]:
            t = (op, t, x) if left else (op, x, t)
        return t
    if depth <= 0 or rng.random() < 0.35:
        if rng.random() < null_p:
            return ("null",)
        return ("leaf", leaf_recipe(rng, kinds, well_typed, fns))
    op = rng.choice(["and", "or", "xor"])
    return (op, tree_recipe(rng, depth - 1, kinds, well_typed, null_p, fns),
            tree_recipe(rng, depth - 1, kinds, well_typed, null_p, fns))


MEMO = [None]      # when set to a dict: one recipe OBJECT builds one condition object (shared between parts / rules / variants)


def build_tree(t, operators=False):
    """operators=True: combinations are built with the python operators & | ^ instead of the classes"""
    if MEMO[0] is not None and t[0] != "null":
        k = (id(t), operators)
        if k not in MEMO[0]:
            MEMO[0][k] = (t, _build_tree(t, operators))       # (the recipe is kept alive with its object)
        return MEMO[0][k][1]
    return _build_tree(t, operators)


def _build_tree(t, operators=False):
    import valida.conditions as c

    if t[0] == "null":
        return c.NullCondition()
    if t[0] == "leaf":
        return build_leaf(t[1])
    l = build_tree(t[1], operators)
    # (op, X, X) with the very same recipe object X twice: ONE condition object used as both operands (`c ^ c`)
    r = l if t[2] is t[1] else build_tree(t[2], operators)
    if operators:
        return (l & r) if t[0] == "and" else (l | r) if t[0] == "or" else (l ^ r)
    return {"and": c.ConditionAnd, "or": c.ConditionOr, "xor": c.ConditionXor}[t[0]](l, r)


# ------------------------------------------------------------------ exhaustive small universes
SMALL_SCALARS = [0, 1, 2, -1, 1.0, 2.5, True, False, None, "", "a", "ab", "1"]
SMALL_KEYS = ["a", "b", 1]


def small_items():
    """all values of depth <= 1 over the small scalar pool (as items of a container)"""
    items = list(SMALL_SCALARS)
    items += [[], [1], ["a", 1], [1, 2], {}, {"a": 1}, {"a": 1, "b": "a"}, {1: 2}, [[1]], {"a": [1]}]
    return items


def small_arg_pool():
    return [0, 1, 2, -1, 1.5, True, None, "", "a", "ab", [1, "a"], ["a", "b"], {"a": 1}, int, str, [int, str]]


def small_leaves():
    """every class x callable x small argument tuples (incl. ill-typed)"""
    out = []
    pool = small_arg_pool()
    for datum, pre in CLASSES:
        for fn in fns_of(datum, pre):
            if fn in VALUE1 or fn in ("factor_of", "has_factor", "keys_contain"):
                for a in pool:
                    out.append({"datum": datum, "pre": pre, "fn": fn, "actuals": [a], "akw": {}})
            elif fn in ("in_range", "not_in_range"):
                for lo, hi in [(0, 2), (1, 1), (-1, 3), (True, 2), (1.0, 3), ("a", 2), (2, 0)]:
                    out.append({"datum": datum, "pre": pre, "fn": fn, "actuals": [lo, hi], "akw": {}})
            elif fn == "equal_to_approx":
                for v, tol in [(1, None), (1.5, 0.5), (0, 1), ("a", 1), (1, "x"), (2, 0.125), (True, 2)]:
                    acts = [v] if tol is None else [v, tol]
                    out.append({"datum": datum, "pre": pre, "fn": fn, "actuals": acts, "akw": {}})
            elif fn in ("truthy", "falsy", "null"):
                out.append({"datum": datum, "pre": pre, "fn": fn, "actuals": [], "akw": {}})
            elif fn in ("is_instance", "keys_is_instance"):
                for ts in [[], [int], [str, float], [bool], [int, 3], [3, int], [dict, list], [type(None) and str]]:
                    out.append({"datum": datum, "pre": pre, "fn": fn, "actuals": list(ts), "akw": {}})
            elif fn in VARPOS_KEYS:
                for ks in [[], ["a"], ["a", "b"], [1], ["a", 1], [[1]], ["b", "c"], [True]]:
                    out.append({"datum": datum, "pre": pre, "fn": fn, "actuals": list(ks), "akw": {}})
            elif fn in N_OF:
                for n, ks in [(0, []), (1, ["a", "b"]), (2, ["a", "b"]), (1, "ab"), ("1", ["a"]), (1, None),
                              (0, ["c"]), (1, [[1], "a"])]:
                    out.append({"datum": datum, "pre": pre, "fn": fn, "actuals": [n, ks], "akw": {}})
            elif fn in ("keys_contain_at_least_one_of", "keys_contain_at_most_one_of"):
                for ks in [[], ["a"], ["a", "b"], "ab", None, [1, "c"]]:
                    out.append({"datum": datum, "pre": pre, "fn": fn, "actuals": [ks], "akw": {}})
            elif fn == "items_contain":
                for kw in [{}, {"a": 1}, {"a": 1, "b": "a"}, {"b": None}, {"a": [1]}]:
                    out.append({"datum": datum, "pre": pre, "fn": fn, "actuals": [], "akw": dict(kw)})
    return out


def small_containers():
    items = small_items()
    out = []
    # every item alone in a list; a few mixed lists; mappings over small keys
    for it in items:
        out.append([it])
    out.append(list(SMALL_SCALARS))
    out.append(items[len(SMALL_SCALARS):])
    for it in items:
        out.append({"a": it})
    out.append({"a": 1, "b": "a", 1: [1]})
    out.append({1: "a", "ab": {}, None: 0})
    out.append({1.5: 2, True: "a", "": None})
    return out


# ------------------------------------------------------------------ path recipes
KEY_KINDS = [("key", "none"), ("key", "none"), ("key", "length"), ("key", "dtype")]
INDEX_KINDS = [("index", "none")]
VALUE_KINDS = [("value", "none"), ("value", "none"), ("value", "length"), ("value", "dtype")]


def datum_arg(rng, kinds, prims, p_none=0.4, p_prim=0.3, depth=2):
    r = rng.random()
    if r < p_none:
        return None
    if r < p_none + p_prim and prims:
        return ("prim", rng.choice(prims))
    return tree_recipe(rng, depth=rng.randint(0, depth), kinds=kinds, null_p=0.1)


def part_recipe(rng, node=None, simple=0.5):
    """a container part recipe, biased to match something in `node` when given"""
    keys, idxs = [], []
    if isinstance(node, dict):
        keys = [k for k in node.keys() if k is not None]
    if isinstance(node, list):
        idxs = list(range(len(node)))
    if isinstance(node, (list, dict)) and node and rng.random() < 0.05:
        # a map-or-list part whose GENERIC condition is a single key (index) condition, on a node of the other kind and
        # with an argument that would match one of its indices (keys): refused, hence no match
        L = lambda datum, fn, *a: ("leaf", {"datum": datum, "pre": "none", "fn": fn, "actuals": list(a), "akw": {}})   # noqa: E731
        if isinstance(node, list):
            j = rng.randrange(len(node))
            c = rng.choice([L("key", "equal_to", j), L("key", "in_", [j, 0]), L("key", "less_than", len(node)), L("key", "is_instance", int)])
        else:
            ks = [k for k in node if isinstance(k, int)] or [0]
            c = rng.choice([L("index", "equal_to", rng.choice(ks)), L("index", "in_", ks[:2] + [0]), L("index", "less_than", 3)])
        return {"rk": "mol", "key": None, "index": None, "value": None, "cond": c, "label": None}
    if isinstance(node, (list, dict)) and node and rng.random() < 0.04:
        # a map-or-list part with an index (key) condition AND a generic combination that holds a key (index) condition:
        # on a list (mapping) the two cannot be combined - refused, no match - whatever the children are
        L = lambda datum, fn, *a: ("leaf", {"datum": datum, "pre": "none", "fn": fn, "actuals": list(a), "akw": {}})   # noqa: E731
        kids = list(node.values()) if isinstance(node, dict) else list(node)
        scal = [k for k in kids if isinstance(k, (int, float, str, bool)) or k is None] or [0]
        vleaf = L("value", "equal_to", rng.choice(scal))
        if isinstance(node, list):
            stranger = L("key", rng.choice(["equal_to", "less_than"]), rng.randrange(len(node)))
            if rng.random() < 0.4:       # Key.length / Key.dtype conditions are key conditions all the same
                stranger = ("leaf", {"datum": "key", "pre": rng.choice(["dtype", "length"]), "fn": "equal_to",
                                     "actuals": [rng.choice([int, 1])], "akw": {}})
            own = {"index": L("index", "less_than", len(node)), "key": None}
        else:
            ks = [k for k in node if isinstance(k, int)] or [0]
            stranger = L("index", "equal_to", rng.choice(ks))
            own = {"key": L("key", "in_", list(node)[:3]) if all(isinstance(k, (str, int, float, bool)) or k is None for k in node) else None, "index": None}
            if own["key"] is None:
                own = {"key": L("key", "truthy"), "index": None}
        c = (rng.choice(["or", "and", "xor"]), stranger, vleaf) if rng.random() < 0.5 else (rng.choice(["or", "and"]), vleaf, stranger)
        return {"rk": "mol", "key": own["key"], "index": own["index"], "value": None, "cond": c, "label": None}
    rk = rng.choice(["map", "list", "mol"])
    if node is not None and rng.random() < 0.75:
        rk = rng.choice(["map", "mol"]) if isinstance(node, dict) else rng.choice(["list", "mol"])
    if rng.random() < simple * 0.5:
        return {"rk": rk, "key": None, "index": None, "value": None, "cond": None, "label": None}
    key = index = None
    if rk in ("map", "mol"):
        key = datum_arg(rng, KEY_KINDS, keys or STR_KEYS)
    if rk in ("list", "mol"):
        index = datum_arg(rng, INDEX_KINDS, idxs or [0, 1, 2])
    value = datum_arg(rng, VALUE_KINDS, [0, 1, "a", 2.5], p_none=0.6, p_prim=0.1)
    kids = list(node.values()) if isinstance(node, dict) else (list(node) if isinstance(node, list) else [])
    scal = [k for k in kids if isinstance(k, (int, float, str, bool)) or k is None]
    if len(scal) >= 2 and rng.random() < 0.3:
        # an or / xor of conditions each matching a different child, the one matching the LATER child first
        i, j = sorted(rng.sample(range(len(scal)), 2))
        mk = lambda v: ("leaf", {"datum": "value", "pre": "none", "fn": "equal_to", "actuals": [v], "akw": {}})  # noqa: E731
        value = (rng.choice(["or", "or", "xor"]), mk(scal[j]), mk(scal[i]))
    cond = None
    if rng.random() < 0.25:
        ck = list(VALUE_KINDS)
        if rk == "map" and rng.random() < 0.4:
            ck += KEY_KINDS
        if rk == "list" and rng.random() < 0.4:
            ck += INDEX_KINDS
        if rk == "mol" and rng.random() < 0.3:
            # a key (index) condition in the generic slot of a map-or-list part: fine on a mapping (list), refused -
            # hence no match - on a list (mapping)
            ck = KEY_KINDS if rng.random() < 0.5 else INDEX_KINDS
            if rng.random() < 0.6:
                key = index = None
        cond = tree_recipe(rng, depth=rng.randint(0, 2), kinds=ck, null_p=0.15)
    label = rng.choice([None, None, None, None, None, "lab", "x", "", 0, False])       # falsy labels are labels
    out = {"rk": rk, "key": key, "index": index, "value": value, "cond": cond, "label": label}
    if rk == "mol" and rng.random() < 0.3:
        # the two slots of their own of a map-or-list part, given explicitly (list_condition= / map_condition=, any
        # condition: index / key leaves mixed with value leaves), by keyword or BY POSITION (the 4th / 5th parameter)
        which = rng.choice(["l", "m", "both", "both"])
        if which in ("l", "both"):
            out["lcond"] = tree_recipe(rng, depth=rng.randint(0, 2), kinds=list(INDEX_KINDS) + (list(VALUE_KINDS) if rng.random() < 0.6 else []), null_p=0.1)
        if which in ("m", "both"):
            out["mcond"] = tree_recipe(rng, depth=rng.randint(0, 2), kinds=list(KEY_KINDS) + (list(VALUE_KINDS) if rng.random() < 0.6 else []), null_p=0.1)
        out["pos"] = rng.random() < 0.5
    return out


def prim_part(rng, node):
    if isinstance(node, dict) and node and rng.random() < 0.85:
        ks = [k for k in node.keys() if isinstance(k, (str, int, float, bool))]
        if ks:
            return ("prim", rng.choice(ks))
    if isinstance(node, list) and node and rng.random() < 0.85:
        j = rng.randrange(len(node))
        if j in (0, 1) and rng.random() < 0.12:
            return ("prim", bool(j))               # a boolean part is an index too (False = 0, True = 1)
        if rng.random() < 0.04:
            return ("prim", float(j))              # ... an integral float is not (it is a mapping key only)
        return ("prim", j)
    return ("prim", rng.choice(STR_KEYS + [0, 1, 2, 1.5, True, 5]))


def path_recipe(rng, doc, maxlen=4, p_prim=0.6):
    """list of part recipes, guided by the document so that selections are often non-empty"""
    parts = []
    node = doc
    n = rng.choice([0, 1, 1, 2, 2, 3, 3, 4][:2 + 2 * maxlen])
    if maxlen >= 4 and rng.random() < 0.05:
        n = rng.choice([5, 6])                      # now and then a long path
    for _ in range(n):
        if rng.random() < p_prim:
            p = prim_part(rng, node)
            parts.append(p)
            try:
                node = node[p[1]]
            except Exception:
                node = None
        else:
            parts.append(part_recipe(rng, node))
            if isinstance(node, dict) and node:
                node = rng.choice(list(node.values()))
            elif isinstance(node, list) and node:
                node = rng.choice(node)
            else:
                node = None
    return parts


def build_arg(x):
    if x is None:
        return None
    if x[0] == "prim":
        return x[1]
    return build_tree(x)


def build_part(p):
    import valida.datapath as dp

    if isinstance(p, tuple) and p[0] == "prim":
        return p[1]
    kw = {"value": build_arg(p["value"]), "condition": build_arg(p["cond"]), "label": p["label"]}
    if p["rk"] == "map":
        return dp.MapValue(key=build_arg(p["key"]), **kw)
    if p["rk"] == "list":
        return dp.ListValue(index=build_arg(p["index"]), **kw)
    if p.get("lcond") is None and p.get("mcond") is None:
        return dp.MapOrListValue(key=build_arg(p["key"]), index=build_arg(p["index"]), **kw)
    if p.get("pos"):        # documented parameter order: key, index, value, list_condition, map_condition, condition, label
        return dp.MapOrListValue(build_arg(p["key"]), build_arg(p["index"]), kw["value"], build_arg(p.get("lcond")),
                                 build_arg(p.get("mcond")), kw["condition"], p["label"])
    return dp.MapOrListValue(key=build_arg(p["key"]), index=build_arg(p["index"]), list_condition=build_arg(p.get("lcond")),
                             map_condition=build_arg(p.get("mcond")), **kw)
