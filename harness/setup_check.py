"""setup_cmd: regenerate Names.tla, parse every module with SANY, PyVal self-test against CPython."""
import glob
import os
import sys

HERE = os.path.dirname(os.path.abspath(__file__))
sys.path.insert(0, os.path.dirname(HERE))
from harness import tlc  # noqa: E402

bad = 0
for f in sorted(glob.glob(os.path.join(tlc.SPEC, "*.tla"))):
    m = os.path.basename(f)[:-4]
    if m == "HeapProof":
        continue            # needs the TLAPS standard module: checked by tlapm, not by SANY alone
    ok, out = tlc.sany(m)
    if not ok:
        bad += 1
        print("SANY FAILED:", m)
        print(out[-1500:])
print("sany:", "ok" if not bad else f"{bad} module(s) failed")
if bad:
    sys.exit(2)
if os.path.exists(os.path.join(HERE, "selftest_pyval.py")):
    import subprocess
    rc = subprocess.call([sys.executable, "-B", os.path.join(HERE, "selftest_pyval.py")])
    if rc:
        sys.exit(2)
