#!/bin/sh
# runall.sh <seed> [tier]: every check once, summary lines only
SEED=${1:-1}; TIER=${2:-quick}; mkdir -p out
for p in C01 C02 C03 C04 C05 C06 C07 C08 C09 C10 C11 C12 C13 C14 C15 C16 C17 C18 C19 C20; do
  VERIF_SEED=$SEED /venv/bin/python -B harness/check.py $p --tier $TIER > out/runall_$p.log 2>&1
  rc=$?
  echo "$p rc=$rc $(grep -E '^\[C' out/runall_$p.log | tail -1)"
  grep -E "^VIOLATION|^KNOWN|MACHINERY" out/runall_$p.log | head -5
done
