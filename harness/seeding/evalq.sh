#!/bin/sh
# usage: evalq.sh ID...   evaluates sequentially
cd /verif
for p in "$@"; do
  timeout 2400 /venv/bin/python -B harness/seeded.py eval ${p}-k $p /tmp/wt/$p /tmp/wt/$p-out > /tmp/wt/$p-out/eval.log 2>&1
done
