import json, os, re, shutil, subprocess
HEAD = subprocess.run(["git", "-C", "/repo", "rev-parse", "HEAD"], capture_output=True, text=True).stdout.strip()
props = {json.loads(l)["id"]: json.loads(l) for l in open("/verif/properties.jsonl")}
for i in range(1, 21):
    p = f"C{i:02d}"
    out = f"/tmp/wt/{p}-out"
    base = open(f"{out}/prompt.txt").read().split("For orientation - where")[0]
    prev = []
    for r in "abcdefghij":
        m = json.load(open(f"/verif/seeded/{p}-{r}/meta.json"))
        w = re.sub(r"\s+", " ", (m.get("what_it_needs") or "").replace("\n\n", " - "))[:170]
        prev.append(w)
    o7 = f"{out}10"
    os.makedirs(o7, exist_ok=True)
    for f in os.listdir(out):
        if f != "prompt.txt":
            shutil.move(os.path.join(out, f), os.path.join(o7, f))
    a = props[p]["anchors"]
    obs = "; ".join(a.get("observe_at") or [])
    mech = "; ".join(f"{m['name']} ({m['where']})" for m in (a.get("mechanism") or []))
    text = base + f"""For orientation - where the property is observed: {obs}. Mechanisms behind it: {mech}. (Line numbers may have shifted.)

IMPORTANT - ten previous engineers already produced the changes summarised below for this property. Yours must be DIFFERENT in kind from all ten: a different function and a different triggering condition. Prefer a mechanism or an entry point from the orientation list above that none of the previous changes touched.

ALSO IMPORTANT - who you are up against: the verification tool under test compares the library with an independent formal reference model on several thousand randomly generated and directed cases per run, through every public entry point it knows. Its generators cover: keys / values / strings of every JSON type incl. '', 0, 0.0, 2.0, long and white-space-padded strings, a few non-ASCII characters, ints up to 2^31-1; containers of 0-13 items nested up to 6 deep, OrderedDict / list subclasses; condition trees over all 32 callables and custom lambdas incl. one object used as both operands, chains of 4-6 operands, tuple / mapping / data-path arguments (zero to many parts, with modifiers, bound with source_data=, matching none / one / several nodes); arguments and keys drawn from the document itself; paths of 0-6 parts incl. integral-float parts, falsy labels, key conditions in generic slots; specs in any letter case with aliases, near-miss names, reordered mappings, tuples, shared sub-structures, hand-written YAML; schemas of 0-6 rules incl. dependent cast rules, assembled directly or by add_schema histories; documentation trees 9 levels deep. It replays call sequences on shared objects, compares with a freshly imported library, repeats a call after the caller edited its document, watches every attribute write on library objects and every change to the caller's documents, specs and argument lists, checks what a refused request leaves behind, and checks equality / round-trip / idempotence relations both ways with shared and with separate objects.
Since then it also: passes rule lists as tuples / iterators / generators; uses the source_data keyword of filter and test_all on whole trees; checks the exact number of failure reasons per failing node; uses same-named custom callables before parsing; lets JSON keys come back reordered; uses the keyword form of to_json_like; builds rules from specs as well as through the API; feeds the library's own serialisation back into the parser; gives add_schema plain-string roots; parses malformed YAML top levels and hand-written YAML with tabs / block scalars through both YAML entry points; uses keys that look like format templates or that render alike as text ('1' / 1, 'a/b'); key lists with repeats and 1 / True / 1.0 twins; rule paths joined with `/` or carrying modifiers; boolean and integral-float index parts; literal mappings keyed by parameter names; keeps a copy.copy of a schema around every add_schema and checks that the copy is unaffected; puts one part object at two positions of a path; joins paths with `/` (also with empty operands, modifiers, bound data); passes list_condition= / map_condition= of MapOrListValue explicitly, by keyword and by position, with index / key leaves mixed with value leaves, through the API, specs and YAML; repeats datum suffixes in path keys; uses twin rule specs in YAML schemas and rules on the empty path with a modifier.
Design your change so that THIS tool is still UNLIKELY to stumble on it although the inputs that expose it are perfectly legitimate and inside the SCOPE above, and do NOT rely on values the property excludes (NaN, numbers beyond 64 bits, floats beyond 1e100), on non-dyadic float rounding, on exact types of container subclasses, on editing a spec after it was parsed, on documents nested hundreds deep, or on behaviour where a datum modifier is undefined for a selected node. Look for: the RESULT objects and their rarely used public members (ValidatedData / RuleTestFailure / FilteredData: get_failures_string, print_failures, frac_rules_tested, cast_data, rule_tests, is_valid read twice, failures of the second rule when the first rule cast something); a library object put through copy.deepcopy or pickle and THEN used (a deep-copied schema, rule, path or condition must behave like the original); a user-defined SUBCLASS of a library class (class MyRule(Rule), a Condition subclass) used where the base class is expected; what happens at the boundary between two rules of one schema (the second rule sees what the first rule cast; rule order after sorting when two paths differ only in part TYPE or in a label); a public method called with its argument explicitly given as the default (None, False, ()) rather than omitted, or with a Data object where a raw document is usual (or the reverse), or a Data object that was already used by another call; documents whose mapping keys are None / floats / bools next to their ==-twins; THREE-step sequences (parse, serialise, validate; add_schema, to_tree, validate); an early `return` or `continue` that skips bookkeeping only when a list is empty at an intermediate step. The change must still be subtle and plausible to a maintainer skimming the diff (a semantic slip, not new machinery).
Previous changes (do not repeat them):
"""
    for k, w in enumerate(prev, 1):
        text += f"--- previous {k} ---\n{w}\n"
    text += "---\n"
    open(f"{out}/prompt.txt", "w").write(text)
    w = f"/tmp/wt/{p}"
    subprocess.run(["git", "-C", w, "checkout", "-q", "-f", "--detach", HEAD], check=True)
    subprocess.run(["git", "-C", w, "clean", "-fdq"], check=True)
    subprocess.run(["git", "-C", w, "stash", "clear"], check=True)
    print(p, end=" ")
