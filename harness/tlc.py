"""Running TLC: design checks (leg A), trace acceptors (leg B), behaviour
generators (leg C).  All scratch goes to /verif/out/run/<pid>-<n>/ and is
removed afterwards."""
import json
import os
import re
import shutil
import subprocess
import sys
import time
from concurrent.futures import ThreadPoolExecutor

VERIF = os.path.dirname(os.path.dirname(os.path.abspath(__file__)))
SPEC = os.path.join(VERIF, "spec")
JAR = "/opt/veriftools/tla/tla2tools.jar:/opt/veriftools/tla/CommunityModules-deps.jar"
NCPU = os.cpu_count() or 4
_counter = [0]


class MachineryError(Exception):
    pass


def scratch():
    _counter[0] += 1
    d = os.path.join(VERIF, "out", "run", f"{os.getpid()}-{_counter[0]}")
    os.makedirs(d, exist_ok=True)
    return d


def _run_tlc(module, cfg, env=None, workers=1, extra=(), timeout=3600, heap="2g", simulate=None, cfg_text=None):
    d = scratch()
    # copy the spec directory so that concurrent JVMs never share a metadir / .tlacov; nothing is ever
    # written into spec/ at run time (several checks may run side by side)
    for f in os.listdir(SPEC):
        if f.endswith(".tla") or f.endswith(".cfg"):
            try:
                shutil.copy(os.path.join(SPEC, f), d)
            except FileNotFoundError:
                pass
    if cfg_text is not None:
        with open(os.path.join(d, cfg), "w") as fh:
            fh.write(cfg_text)
    cmd = [
        "java", f"-Xmx{heap}", "-Xss128m", "-XX:+UseSerialGC" if workers == 1 else "-XX:+UseParallelGC", "-XX:TieredStopAtLevel=4", "-cp", JAR, "tlc2.TLC",
        "-config", cfg, "-workers", str(workers), "-metadir", os.path.join(d, "meta"),
        "-noGenerateSpecTE",
    ]
    if simulate:
        cmd += ["-simulate"] + ([simulate] if isinstance(simulate, str) else [])
    cmd += list(extra) + [module]
    e = dict(os.environ)
    e.update(env or {})
    t0 = time.time()
    try:
        p = subprocess.run(cmd, cwd=d, env=e, capture_output=True, text=True, timeout=timeout)
        out = p.stdout + p.stderr
        rc = p.returncode
    except subprocess.TimeoutExpired as ex:
        out = (ex.stdout or b"").decode("utf8", "replace") if isinstance(ex.stdout, bytes) else (ex.stdout or "")
        out += "\nTIMEOUT"
        rc = -9
    finally:
        pass
    return {"rc": rc, "out": out, "dir": d, "wall": time.time() - t0}


def _cleanup(res):
    shutil.rmtree(res["dir"], ignore_errors=True)


_STATES = re.compile(r"(\d+) states generated, (\d+) distinct states found")
_SIMSTATES = re.compile(r"The number of states generated: (\d+)")
_MISMATCH = re.compile(r'<<"MISMATCH", (-?\d+), "([A-Za-z0-9_]+)"(?:, (.*))?>>\s*$')
_FATAL = re.compile(
    r"(Error: TLC threw|Error: Evaluating|Error: The |Error: Attempted|Error: In evaluation|"
    r"Parsing or semantic analysis failed|Error: Parsing|java\.lang\.|was not (?:a|in)|"
    r"Error: Unknown|Error: An|Error: Could not|Error: Too many|Fatal|TLC_CONFIG|Error: Config|Error: TLC)"
)


def parse_counts(out):
    m = None
    for m in _STATES.finditer(out):
        pass
    if m:
        return int(m.group(1)), int(m.group(2))
    return 0, 0


def fatal(out):
    """TLC error other than an invariant violation."""
    for line in out.splitlines():
        if line.startswith("Error:") and "is violated" not in line and "Invariant" not in line \
           and "The behavior up to this point" not in line and "Action property" not in line \
           and "Temporal properties were violated" not in line and "The following behavior" not in line:
            return line
        if "Parsing or semantic analysis failed" in line or "java.lang." in line:
            return line
    if "TIMEOUT" in out.splitlines()[-1:] or out.endswith("TIMEOUT"):
        return "TIMEOUT"
    return None


def model_check(module, cfg, workers=None, expect_violation=False, extra=(), timeout=3600, heap="4g",
                env=None, simulate=None, cfg_text=None):
    """Leg A: run a bounded instance.  Returns dict(ok, states, distinct, violated, out)."""
    res = _run_tlc(module, cfg, workers=workers or NCPU, extra=extra, timeout=timeout, heap=heap, env=env,
                   simulate=simulate, cfg_text=cfg_text)
    out = res["out"]
    _cleanup(res)
    f = fatal(out)
    violated = ("is violated" in out) or ("Temporal properties were violated" in out) or \
               ("Deadlock reached" in out)
    gen, dist = parse_counts(out)
    if simulate and not gen:
        m = _SIMSTATES.search(out)
        if m:
            gen = dist = int(m.group(1))
    if f and not violated:
        raise MachineryError(f"TLC failed on {module}/{cfg}: {f}\n" + out[-3000:])
    finished = "Model checking completed" in out or "Finished in" in out or "Finished computing" in out
    if not violated and not finished and not simulate:
        raise MachineryError(f"TLC did not finish {module}/{cfg}\n" + out[-3000:])
    return {"ok": not violated, "violated": violated, "states": gen, "distinct": dist,
            "wall": res["wall"], "out": out}


def model_check_sharded(module, cfg, nshards=None, timeout=3600, heap="2g"):
    """Leg A instances whose Init ranges over a big universe: TLC enumerates initial states on one
    thread, so the universe is split over JVMs with the constants Shard / NShards."""
    n = nshards or NCPU
    base = open(os.path.join(SPEC, cfg)).read()
    texts = [re.sub(r"NShards = \d+", f"NShards = {n}", re.sub(r"Shard = \d+", f"Shard = {k}", base, count=1))
             for k in range(n)]
    t0 = time.time()
    with ThreadPoolExecutor(max_workers=NCPU) as ex:
        futs = [ex.submit(model_check, module, cfg.replace(".cfg", f"__shard{k}.cfg"), 1, False, (), timeout, heap,
                          None, None, texts[k]) for k in range(n)]
        rs = [f.result() for f in futs]
    bad = [r for r in rs if not r["ok"]]
    return {"ok": not bad, "violated": bool(bad), "states": sum(r["states"] for r in rs),
            "distinct": sum(r["distinct"] for r in rs), "wall": time.time() - t0,
            "out": (bad[0]["out"] if bad else rs[0]["out"])}


def _accept_shard(module, cfg, events, idx, consts_env, timeout):
    d = scratch()
    path = os.path.join(d, f"events-{idx}.ndjson")
    with open(path, "w") as fh:
        for e in events:
            fh.write(json.dumps(e, separators=(",", ":")) + "\n")
    env = {"TRACE_FILE": path, "VERIF_PROP": ""}
    env.update(consts_env or {})
    res = _run_tlc(module, cfg, env=env, workers=1, extra=["-continue"], timeout=timeout)
    out = res["out"]
    mism = []
    for line in out.splitlines():
        m = _MISMATCH.search(line)
        if m:
            mism.append({"id": int(m.group(1)), "clause": m.group(2), "detail": (m.group(3) or "")[:2000]})
    gen, dist = parse_counts(out)
    nviol = out.count("is violated")
    f = fatal(out)
    _cleanup(res)
    shutil.rmtree(d, ignore_errors=True)
    if f:
        raise MachineryError(f"TLC failed in acceptor {module} shard {idx}: {f}\n" + out[-4000:])
    if dist != len(events):
        raise MachineryError(
            f"acceptor {module} shard {idx}: judged {dist} of {len(events)} events\n" + out[-3000:])
    if nviol != len(mism):
        raise MachineryError(
            f"acceptor {module} shard {idx}: {nviol} invariant violations but {len(mism)} MISMATCH lines\n"
            + out[-3000:])
    return {"mismatches": mism, "states": gen, "distinct": dist, "wall": res["wall"]}


def accept(module, cfg, events, shards=None, env=None, timeout=3600):
    """Leg B: every event is one initial state of the acceptor; TLC gives a
    total verdict.  Returns dict(mismatches=[{id, clause, detail}], states, distinct)."""
    if not events:
        return {"mismatches": [], "states": 0, "distinct": 0, "wall": 0.0}
    n = shards or min(NCPU, max(1, len(events) // 400))
    chunks = [events[i::n] for i in range(n)]
    chunks = [c for c in chunks if c]
    t0 = time.time()
    with ThreadPoolExecutor(max_workers=NCPU) as ex:
        futs = [ex.submit(_accept_shard, module, cfg, c, i, env, timeout) for i, c in enumerate(chunks)]
        rs = [f.result() for f in futs]
    return {
        "mismatches": sorted((m for r in rs for m in r["mismatches"]), key=lambda m: m["id"]),
        "states": sum(r["states"] for r in rs),
        "distinct": sum(r["distinct"] for r in rs),
        "wall": time.time() - t0,
    }


_EMIT = re.compile(r'^"(\{.*\})"\s*$')


def generate(module, cfg, workers=1, simulate=None, extra=(), timeout=3600, env=None, heap="4g"):
    """Leg C: run a Gen_ instance whose Emit invariant prints one JSON string
    per behaviour (PrintT(ToJson(..)))."""
    res = _run_tlc(module, cfg, workers=workers, simulate=simulate, extra=extra, timeout=timeout, env=env,
                   heap=heap)
    out = res["out"]
    _cleanup(res)
    f = fatal(out)
    if f and f != "TIMEOUT":
        raise MachineryError(f"TLC failed in generator {module}: {f}\n" + out[-3000:])
    behs = []
    for line in out.splitlines():
        line = line.strip()
        if line.startswith('"{') and line.endswith('}"'):
            try:
                behs.append(json.loads(json.loads(line)))
            except Exception:
                try:
                    behs.append(json.loads(line[1:-1].replace('\\"', '"').replace("\\\\", "\\")))
                except Exception as ex:  # pragma: no cover
                    raise MachineryError(f"cannot parse emitted behaviour: {line[:300]}") from ex
    gen, dist = parse_counts(out)
    if simulate and not gen:
        m = _SIMSTATES.search(out)
        if m:
            gen = dist = int(m.group(1))
    return {"behaviours": behs, "states": gen, "distinct": dist, "wall": res["wall"], "out": out}


def tlaps(module, timeout=900):
    """Check the proofs of a module with the TLA+ proof system; returns (obligations, proved)."""
    d = scratch()
    shutil.copy(os.path.join(SPEC, module + ".tla"), d)
    try:
        p = subprocess.run(["tlapm", "--cleanfp", module + ".tla"], cwd=d, capture_output=True, text=True, timeout=timeout)
        out = p.stdout + p.stderr
    except (subprocess.TimeoutExpired, FileNotFoundError) as ex:
        shutil.rmtree(d, ignore_errors=True)
        raise MachineryError(f"tlapm could not check {module}: {ex}")
    shutil.rmtree(d, ignore_errors=True)
    m = re.search(r"All (\d+) obligations? proved", out)
    if m:
        return int(m.group(1)), int(m.group(1))
    m = re.search(r"(\d+)/(\d+) obligations? failed", out)
    if m:
        return int(m.group(2)), int(m.group(2)) - int(m.group(1))
    raise MachineryError(f"tlapm output not understood for {module}:\n" + out[-1500:])


def sany(module):
    p = subprocess.run(["java", "-cp", JAR, "tla2sany.SANY", module + ".tla"], cwd=SPEC,
                       capture_output=True, text=True)
    ok = "Semantic errors" not in p.stdout and "error" not in p.stdout.lower().replace("errors: 0", "")
    return p.returncode == 0 and "*** Errors" not in p.stdout and "Fatal" not in p.stdout, p.stdout + p.stderr


if __name__ == "__main__":
    ok, out = sany(sys.argv[1])
    print(out)
    sys.exit(0 if ok else 2)
