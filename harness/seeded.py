"""Evaluation of a seeded change (a realistic change to valida that breaks a property while the 266 tests pass).

  seeded.py eval <name> <property id> <worktree dir> <out dir> [--all]
      1. the repository tests pass in the worktree (with the change);
      2. demo.py passes on /repo (unchanged) and fails on the worktree;
      3. the property's quick check is run with VALIDA_SRC=<worktree>: it must exit 1 with a VIOLATION line
         (--all: every other check is run too, to record which checks catch the change);
      4. patch.diff, demo.py and meta.json are stored under /verif/seeded/<name>/.
  seeded.py confirm <name>
      applies /verif/seeded/<name>/patch.diff to /repo itself, runs the property's check, and undoes it.
"""
import json
import os
import shutil
import subprocess
import sys

VERIF = os.path.dirname(os.path.dirname(os.path.abspath(__file__)))
PY = "/venv/bin/python"
ALL = [f"C{i:02d}" for i in range(1, 21)]


def run(cmd, cwd=None, env=None, timeout=3600):
    e = dict(os.environ)
    e.update(env or {})
    p = subprocess.run(cmd, cwd=cwd, env=e, capture_output=True, text=True, timeout=timeout)
    return p.returncode, p.stdout + p.stderr


def check(pid, src):
    rc, out = run([PY, "-B", "harness/check.py", pid, "--tier", "quick"], cwd=VERIF, env={"VALIDA_SRC": src})
    viol = [l for l in out.splitlines() if l.startswith("VIOLATION")]
    keys = [l.strip() for l in out.splitlines() if l.startswith("   {")]
    return rc, viol, keys, out


def evaluate(name, pid, wt, outdir, run_all):
    meta = {"name": name, "property": pid, "worktree": wt}
    rc, out = run([PY, "-m", "pytest", "-q", "-p", "no:cacheprovider", "-x"], cwd=wt)
    meta["tests_pass_with_change"] = rc == 0
    meta["tests_tail"] = out.strip().splitlines()[-1] if out.strip() else ""
    demo = os.path.join(outdir, "demo.py")
    rc0, o0 = run([PY, demo], cwd="/repo", env={"PYTHONPATH": "/repo"}, timeout=600)
    rc1, o1 = run([PY, demo], cwd=wt, env={"PYTHONPATH": wt}, timeout=600)
    meta["demo_passes_unchanged"] = rc0 == 0
    meta["demo_fails_with_change"] = rc1 != 0
    rc, viol, keys, out = check(pid, wt)
    meta["own_check_rc"] = rc
    meta["own_check_violations"] = keys[:6]
    meta["caught_by"] = [pid] if rc == 1 else []
    if rc not in (0, 1):
        meta["own_check_output_tail"] = out[-1500:]
    if run_all:
        for q in ALL:
            if q == pid:
                continue
            r, v, k, o = check(q, wt)
            if r == 1:
                meta["caught_by"].append(q)
            elif r != 0:
                meta.setdefault("machinery_failures", []).append(q)
    dst = os.path.join(VERIF, "seeded", name)
    os.makedirs(dst, exist_ok=True)
    for f in ("patch.diff", "demo.py", "notes.md"):
        if os.path.exists(os.path.join(outdir, f)):
            shutil.copy(os.path.join(outdir, f), dst)
    meta["what_it_needs"] = open(os.path.join(outdir, "notes.md")).read()[:1500] if os.path.exists(os.path.join(outdir, "notes.md")) else ""
    meta["ran"] = ["pytest in the worktree", "demo.py on /repo and on the worktree",
                   f"harness/check.py {pid} --tier quick with VALIDA_SRC=<worktree>"] + (["all other checks"] if run_all else [])
    meta.pop("worktree")
    with open(os.path.join(dst, "meta.json"), "w") as fh:
        json.dump(meta, fh, indent=1)
    print(json.dumps({k: meta[k] for k in ("name", "tests_pass_with_change", "demo_passes_unchanged", "demo_fails_with_change",
                                            "own_check_rc", "caught_by")}, indent=None))
    for k in keys[:4]:
        print("   ", k[:300])


def confirm(name):
    dst = os.path.join(VERIF, "seeded", name)
    meta = json.load(open(os.path.join(dst, "meta.json")))
    rc, out = run(["git", "-C", "/repo", "apply", os.path.join(dst, "patch.diff")])
    if rc:
        print("patch does not apply:", out)
        return 2
    try:
        rc, viol, keys, out = check(meta["property"], "/repo")
    finally:
        run(["git", "-C", "/repo", "checkout", "--", "."])
    print(name, "check rc", rc, viol[:2])
    meta["confirmed_on_repo_rc"] = rc
    json.dump(meta, open(os.path.join(dst, "meta.json"), "w"), indent=1)
    return 0


def recheck(names):
    """re-run the property's quick check against every stored change (fresh scratch worktree per change, removed
    afterwards); prints one line per change and exits 1 if one is no longer caught"""
    missed = []
    for name in names:
        dst = os.path.join(VERIF, "seeded", name)
        meta = json.load(open(os.path.join(dst, "meta.json")))
        wt = f"/tmp/recheck-{os.getpid()}-{name}"
        run(["git", "-C", "/repo", "worktree", "add", "-q", "--detach", wt, "HEAD"])
        try:
            rc, out = run(["git", "-C", wt, "apply", os.path.join(dst, "patch.diff")])
            if rc:
                print(name, "PATCH DOES NOT APPLY")
                missed.append(name)
                continue
            rc, viol, keys, out = check(meta["property"], wt)
            print(name, meta["property"], "rc", rc, (keys[:1] or [""])[0][:160], flush=True)
            if rc != 1:
                missed.append(name)
            meta["last_recheck_rc"] = rc
            json.dump(meta, open(os.path.join(dst, "meta.json"), "w"), indent=1)
        finally:
            run(["git", "-C", "/repo", "worktree", "remove", "--force", wt])
    print("missed:", missed)
    return 1 if missed else 0


if __name__ == "__main__":
    if sys.argv[1] == "recheck":
        names = sys.argv[2:] or sorted(os.listdir(os.path.join(VERIF, "seeded")))
        sys.exit(recheck(names))
    if sys.argv[1] == "eval":
        evaluate(sys.argv[2], sys.argv[3], sys.argv[4], sys.argv[5], "--all" in sys.argv)
    else:
        sys.exit(confirm(sys.argv[2]))
