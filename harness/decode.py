"""Abstract terms (spec/Cond.tla, Path.tla) -> real valida objects, through the
public DSL only."""
from harness.encode import dec_val
from harness import gen


def real_leaf(t):
    cls = gen.cls_of(t["datum"], t["pre"])
    args = [dec_val(a) for a in t["args"]]
    kw = {k["name"]: dec_val(k["v"]) for k in t["kw"]}
    return getattr(cls, t["fn"])(*args, **kw)


def real_cond(t):
    import valida.conditions as c

    if t["t"] == "null":
        return c.NullCondition()
    if t["t"] == "leaf":
        return real_leaf(t)
    l, r = real_cond(t["l"]), real_cond(t["r"])
    return {"and": c.ConditionAnd, "or": c.ConditionOr, "xor": c.ConditionXor}[t["t"]](l, r)


def real_part(p):
    import valida.datapath as dp

    lab = dec_val(p["label"])
    if p["pk"] == "map":
        return dp.MapValue(condition=real_cond(p["cond"]), label=lab)
    if p["pk"] == "list":
        return dp.ListValue(condition=real_cond(p["cond"]), label=lab)
    return dp.MapOrListValue(condition=real_cond(p["cond"]), list_condition=real_cond(p["lcond"]),
                             map_condition=real_cond(p["mcond"]), label=lab)
