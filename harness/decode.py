"""Abstract terms (spec/Cond.tla, Path.tla) -> real valida objects, through the
public DSL only."""
from harness.encode import dec_val
from harness import gen


def real_leaf(t):
    cls = gen.cls_of(t["datum"], t["pre"])
    args = [dec_val(a) for a in t["args"]]
    kw = {k["name"]: dec_val(k["v"]) for k in t["kw"]}
    return getattr(cls, t["fn"])(*args, **kw)


def real_cond(t):
    import valida.conditions as c

    if t["t"] == "null":
        return c.NullCondition()
    if t["t"] == "leaf":
        return real_leaf(t)
    l, r = real_cond(t["l"]), real_cond(t["r"])
    return {"and": c.ConditionAnd, "or": c.ConditionOr, "xor": c.ConditionXor}[t["t"]](l, r)


def real_part(p):
    import valida.datapath as dp

    lab = dec_val(p["label"])
    if p["pk"] == "map":
        return dp.MapValue(condition=real_cond(p["cond"]), label=lab)
    if p["pk"] == "list":
        return dp.ListValue(condition=real_cond(p["cond"]), label=lab)
    return dp.MapOrListValue(condition=real_cond(p["cond"]), list_condition=real_cond(p["lcond"]),
                             map_condition=real_cond(p["mcond"]), label=lab)


def _prim_of(p):
    """the primitive a coerced part stands for (inverse of Path.tla Coerce), or None"""
    def eqv(c, datum):
        if c["t"] == "leaf" and c["datum"] == datum and c["pre"] == "none" and c["fn"] == "equal_to" \
                and len(c["kw"]) == 1 and c["kw"][0]["name"] == "value":
            return c["kw"][0]["v"]
        return None

    if p["pk"] == "map" and p["label"]["k"] == "none":
        v = eqv(p["cond"], "key")
        if v is not None and v["k"] in ("str", "float"):
            return dec_val(v)
    if p["pk"] == "mol" and p["cond"]["t"] == "null" and p["label"]["k"] == "none":
        a, b = eqv(p["lcond"], "index"), eqv(p["mcond"], "key")
        if a is not None and b is not None and a == b and a["k"] in ("int", "bool"):
            return dec_val(a)
    return None


def real_path(pt):
    import valida.datapath as dp

    parts = []
    for p in pt["parts"]:
        prim = _prim_of(p) if pt["concrete"] else None
        parts.append(prim if prim is not None else real_part(p))
    path = dp.DataPath(*parts)
    for m in (pt["dt"], pt["mt"]):
        if m != "none":
            path = getattr(path, m)()
    return path


def real_rule(rt):
    import valida
    import valida.casting as vc

    cast = None
    if rt["cast"]:
        cast = {}
        for frm, name in rt["cast"]:
            cast[{3: str}[frm]] = vc.cast_string_to_bool if name == "bool" else int
    return valida.Rule(path=real_path(rt["path"]), condition=real_cond(rt["cond"]), cast=cast)
