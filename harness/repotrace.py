"""Second source of traces (DESIGN.md 4.5): the repository's own 266 tests run under harness/pytest_trace.py;
every recorded outermost filter / get_data / Rule.test / Schema.validate call is handed to the acceptors."""
import json
import os
import subprocess
import sys

from harness import common, tlc

_cache = {}


def collect():
    if "ev" in _cache:
        return _cache["ev"]
    os.makedirs(os.path.join(tlc.VERIF, "out"), exist_ok=True)
    out = os.path.join(tlc.VERIF, "out", f"repotrace-{os.getpid()}.ndjson")
    env = dict(os.environ)
    env["VERIF_TRACE_OUT"] = out
    env["PYTHONPATH"] = tlc.VERIF + os.pathsep + common.SRC
    p = subprocess.run([sys.executable, "-B", "-m", "pytest", "-q", "-p", "no:cacheprovider", "-p", "harness.pytest_trace",
                        os.path.join(common.SRC, "tests")], cwd=common.SRC, env=env, capture_output=True, text=True)
    evs = {"filter": [], "get_proj": [], "ruletest_proj": [], "validate_proj": [], "meta": {"pytest_rc": p.returncode}}
    if os.path.exists(out):
        for line in open(out):
            e = json.loads(line)
            if e["op"] == "_meta":
                evs["meta"].update(e)
            else:
                evs.setdefault(e["op"], []).append(e)
        os.remove(out)
    _cache["ev"] = evs
    return evs


def judge(rep, op, module, fill, prop_key="repo_tests"):
    """fill: function giving a blank event of the acceptor's shape, to which the recorded fields are added"""
    evs = collect().get(op, [])
    events = []
    for j, r in enumerate(evs, 1):
        e = fill(j)
        e.update(r)
        e["id"] = j
        events.append(e)
    if not events:
        return 0
    res = tlc.accept(module, module + ".cfg", events)
    rep.add_tlc(res, f"B:{module}(calls recorded from the repository's tests)")
    rep.traces += len(events)
    rep.extra["repo_test_calls"] = rep.extra.get("repo_test_calls", 0) + len(events)
    for m in res["mismatches"]:
        e = events[m["id"] - 1]
        rep.reject({"clause": m["clause"], "op": e["op"], "outcome": e["outcome"], "source": prop_key}, {"event": e})
    return len(events)
