"""Entry point of every registered check:
     check.py <property id> [--tier quick|thorough] [--replay <file>]
Exit 0: property held on everything explored (KNOWN-FINDING lines allowed).
Exit 1: at least one `VIOLATION property=<id> replay=<path>` line.
Exit 2: machinery failure (never a verdict)."""
import argparse
import importlib
import json
import os
import sys
import traceback
import warnings

HERE = os.path.dirname(os.path.abspath(__file__))
sys.path.insert(0, os.path.dirname(HERE))
sys.dont_write_bytecode = True

from harness import common, tlc  # noqa: E402


def main():
    ap = argparse.ArgumentParser()
    ap.add_argument("pid")
    ap.add_argument("--tier", default=os.environ.get("VERIF_TIER") or "quick")
    ap.add_argument("--replay")
    a = ap.parse_args()
    tier = os.environ.get("VERIF_TIER") or a.tier
    if tier not in ("quick", "thorough"):
        tier = "quick"
    seed = int(os.environ.get("VERIF_SEED", "20261003") or 20261003)
    warnings.simplefilter("ignore")
    try:
        common.bind_source()
        mod = importlib.import_module(f"harness.props.{a.pid.lower()}")
        rep = common.Report(a.pid, tier, seed)
        if a.replay:
            with open(a.replay) as fh:
                case = json.load(fh)
            mod.replay(rep, case)
        else:
            mod.run(rep, tier, seed)
        rc = rep.finish()
    except tlc.MachineryError as ex:
        print(f"MACHINERY-FAILURE property={a.pid}: {ex}", file=sys.stderr)
        sys.exit(2)
    except Exception:
        traceback.print_exc()
        print(f"MACHINERY-FAILURE property={a.pid}: unexpected exception in the harness", file=sys.stderr)
        sys.exit(2)
    sys.exit(rc)


if __name__ == "__main__":
    main()
