"""Self-test of spec/PyVal.tla against CPython itself (no valida involved): exhaustive pairs over a pool of values of
every kind + seeded random.  Part of setup_cmd; a mismatch is a machinery failure (exit 2)."""
import itertools
import os
import random
import sys

HERE = os.path.dirname(os.path.abspath(__file__))
sys.path.insert(0, os.path.dirname(HERE))
sys.dont_write_bytecode = True
from harness import tlc, gen  # noqa: E402
from harness.encode import enc_val  # noqa: E402

POOL = [0, 1, -1, 2, 3, True, False, 0.0, 1.0, 2.5, -1.5, None, "", "a", "ab", "b", "1", " 7 ", "A", [], [1], [1, "a"],
        ["a", 1], [1, 2], [[1]], {}, {"a": 1}, {1: 2}, {"a": 1, "b": "a"}, (), (1, "a"), int, str, bool, dict,
        # the edges of the number universe: ints up to 2^31 - 1, floats up to 2^27 on the 1/8 grid
        1700000000, 1700000001, -1700000000, 2 ** 31 - 1, -(2 ** 31 - 1), 2 ** 27, 2 ** 27 + 1, 99999999, 16777216.5,
        134217000.0, -134217000.125, 1000000.5, 0.125, -0.125, 7, 8, 0.5, 1024.0, [1700000000], (2 ** 27, 1.0)]
EPS = 1e-8


def obs(f):
    try:
        r = f()
    except (TypeError, AttributeError):
        return "E"
    except Exception:  # noqa
        return "X"
    return "T" if r else "F"


def main():
    rng = random.Random(int(os.environ.get("VERIF_SEED", "7")))
    evs = []

    def add(op, a=None, b=None, c=None, o=None, n=0):
        evs.append({"id": len(evs) + 1, "op": op, "a": enc_val(a), "b": enc_val(b), "c": enc_val(c), "obs": o, "n": n})

    vals = POOL + [gen.value(rng, 2) for _ in range(40)]
    for a, b in itertools.product(vals, vals):
        add("eq", a, b, o=obs(lambda: a == b))
        add("lt", a, b, o=obs(lambda: a < b))
        add("le", a, b, o=obs(lambda: a <= b))
        add("gt", a, b, o=obs(lambda: a > b))
        add("ge", a, b, o=obs(lambda: a >= b))
        add("in", a, b, o=obs(lambda: a in b))
        if not (isinstance(a, str) and "%" in a):
            add("mod0", a, b, o=obs(lambda: a % b == 0))
    for a in vals:
        add("truthy", a, o=obs(lambda: bool(a)))
        add("hashable", a, o=obs(lambda: hash(a) is not None).replace("E", "F"))
        try:
            add("len", a, o="T", n=len(a))
        except TypeError:
            add("len", a, o="E")
        for lo, hi in [(0, 3), (-1, 2), (True, 5), (1.0, 3), ("a", 2), (2, 0), (1700000000, 2 ** 31 - 1), (-(2 ** 31 - 1), 0),
                       (2 ** 27, 2 ** 27 + 1), (1700000000, 1700000002)]:
            if isinstance(lo, int) and isinstance(hi, int) and hi - lo > 10 ** 6 and not isinstance(a, int):
                continue            # CPython scans a range item by item for a non-int: minutes
            add("in_range", a, lo, hi, o=obs(lambda: a in range(lo, hi)))
        for v, tol in [(1, EPS), (1.5, 0.5), (0, 1), ("a", 1), (1, "x"), (2, 0.125), (True, 2), (1, None),
                       (1700000000, EPS), (1700000000, 1.5), (-1700000000, 2), (2 ** 31 - 1, 2 ** 31 - 1), (2 ** 27, 0.125),
                       (1, 0), (1, -1), (1700000001, 1), (0, 1700000000), (-(2 ** 31 - 1), 2 ** 31 - 1), (16777216.5, 0.5)]:
            add("approx", a, v, tol, o=obs(lambda: abs(a - v) < tol))
        for cls in [[int], [str, float], [bool], [int, 3], [3, int], [dict, list], [], [type(None)],
                    [(int, float)], [str, (list, (int,))], [(), bool], [(int, 3)], [[int]], [(str,), 3]]:
            add("isinstance", a, list(cls), o=obs(lambda: isinstance(a, tuple(cls))))
    for s in ["", "0", "7", " 7 ", "-2", "+5", "1_0", "_1", "1_", "1__0", "x3", "1.5", "007", "- 1", "12345678", "true", " "] + \
            gen.STRS_WIDE + ["fal\u017fe", "TRUE\u2003", "\u00a07", "\u0663", "1\uff13", "\u00c9", "\u00e9t\u00e9", "stra\u00dfe", "\u00a0\u2003", "\uff13_\u0663",
             "\t", "\n 7\t", "\x1c7\x1d", "7\x1e\x1f", "\r+1_1\r", " -0 ", "+-1", "1 _0", "\x0c"]:
        try:
            add("int", s, o="T", n=int(s))
        except ValueError:
            add("int", s, o="X")
        add("strip", s, s.strip(), o="T")
        add("lower", s, s.lower(), o="T")
    for s in ["a.b", "value.dtype.eq", "", ".", "a..b", "abc", ".a", "a."]:
        add("split", s, s.split("."), o="T")
        add("lower", s.upper(), s.upper().lower(), o="T")
    try:
        res = tlc.accept("Trace_PyVal", "Trace_PyVal.cfg", evs)
    except tlc.MachineryError as ex:
        print("PyVal self-test could not run:", str(ex)[:2000])
        return 2
    print(f"pyval selftest: {len(evs)} operator applications, {len(res['mismatches'])} mismatches")
    for m in res["mismatches"][:10]:
        e = evs[m["id"] - 1]
        print("  MISMATCH", e["op"], e["a"], e["b"], "observed", e["obs"], m["detail"][:200])
    return 2 if res["mismatches"] else 0


if __name__ == "__main__":
    sys.exit(main())
