"""pytest plugin (-p harness.pytest_trace): records the public calls the repository's own tests make
(ConditionLike.filter, DataPath.get_data, Rule.test, Schema.validate; outermost calls only) in the abstract encoding,
so that every one of them can be judged by the TLC acceptors - the repository's tests with stronger assertions.
The events are written as JSON lines to $VERIF_TRACE_OUT at the end of the session.  Nothing in /repo is touched:
the wrappers are assigned onto the classes inside the pytest process only."""
import functools
import json
import os
import sys

_events = []
_depth = [0]
_skipped = [0]


def _outcome(f):
    try:
        return "ok", f()
    except Exception as ex:  # noqa
        return "raised:" + type(ex).__name__, ex


def _wrap(cls, name, record):
    orig = getattr(cls, name)

    @functools.wraps(orig)
    def wrapper(self, *a, **kw):
        if _depth[0] > 0:
            return orig(self, *a, **kw)
        _depth[0] += 1
        try:
            out, res = _outcome(lambda: orig(self, *a, **kw))
        finally:
            _depth[0] -= 1
        try:
            ev = record(self, a, kw, out, res)
            if ev is not None:
                _events.append(ev)
        except Exception:  # unencodable values, unusual call shapes: not judged
            _skipped[0] += 1
        if out != "ok":
            raise res
        return res

    setattr(cls, name, wrapper)


def pytest_configure(config):
    here = os.path.dirname(os.path.dirname(os.path.abspath(__file__)))
    if here not in sys.path:
        sys.path.insert(0, here)
    import valida
    import valida.conditions as vc
    import valida.datapath as dp
    import valida.data as vd
    from harness.encode import enc_val, enc_cond, enc_path, enc_rule

    def plain(data):
        return data.get_original() if isinstance(data, vd.Data) else data

    import valida.callables as vcall

    def dsl_only(c):
        """every leaf uses one of the library's own comparison callables (custom callables are outside the properties)"""
        if isinstance(c, vc.ConditionBinaryOp):
            return all(dsl_only(x) for x in c.children)
        f = c.callable.func
        return getattr(vcall, getattr(f, "__name__", ""), None) is f

    def conds_of(x):
        if isinstance(x, dp.DataPath):
            out = []
            for part in x.parts:
                out += [part.condition] + ([part.list_condition, part.map_condition] if hasattr(part, "list_condition") else [])
            return out
        if isinstance(x, valida.Rule):
            return [x.condition] + conds_of(x.path)
        return []

    def rec_filter(self, a, kw, out, res):
        if kw.get("data_has_paths") or kw.get("source_data") is not None or len(a) != 1 or not dsl_only(self):
            return None
        doc = plain(a[0])
        e = {"op": "filter", "entry": "repo_test", "cond": enc_cond(self), "doc": enc_val(doc), "outcome": out,
             "result": [], "data": [], "keys": [], "fidx": []}
        if out == "ok":
            e["result"] = [bool(b) for b in res.result]
            e["data"] = [enc_val(v) for v in res.data]
            e["keys"] = [enc_val(v) for v in res.keys]
            e["fidx"] = [int(x) for x in res.failure_indices]
        return e

    def rec_get(self, a, kw, out, res):
        data = a[0] if a else kw.get("data")
        if self.source_data is not None or data is None or not all(dsl_only(c) for c in conds_of(self)):
            return None
        rp = bool(a[1]) if len(a) > 1 else bool(kw.get("return_paths", False))
        e = {"op": "get_proj", "proj": enc_path(self), "doc": enc_val(plain(data)), "rp": rp, "outcome": out,
             "res": enc_val(res) if out == "ok" else {"k": "none", "n": 0, "xs": []}}
        return e

    def rec_ruletest(self, a, kw, out, res):
        if len(a) != 1 or kw or not all(dsl_only(c) for c in conds_of(self)):
            return None
        e = {"op": "ruletest_proj", "proj": enc_rule(self), "doc": enc_val(plain(a[0])), "outcome": out, "valid": True,
             "tested": False, "nfail": 0, "fails": []}
        if out == "ok":
            e.update(valid=bool(res.is_valid), tested=bool(res.tested), nfail=int(res.num_failures),
                     fails=[{"value": enc_val(f.value), "path": enc_val(tuple(f.path)),
                             "nreasons": len(f.reasons or ()), "reasons_str": all(isinstance(r, str) for r in (f.reasons or ()))}
                            for f in res.failures])
        return e

    def rec_validate(self, a, kw, out, res):
        if len(a) != 1 or kw or not all(dsl_only(c) for r in self.rules for c in conds_of(r)):
            return None
        e = {"op": "validate_proj", "projs": [enc_rule(r) for r in self.rules], "doc": enc_val(plain(a[0])), "outcome": out,
             "valid": True, "nfail": 0, "ntested": 0, "cast_data": {"k": "none", "n": 0, "xs": []}}
        if out == "ok":
            e.update(valid=bool(res.is_valid), nfail=int(res.num_failures), ntested=int(res.num_rules_tested),
                     cast_data=enc_val(res.cast_data))
        return e

    for cls in (vc.Condition, vc.ConditionBinaryOp, vc.KeyLike, vc.IndexLike, vc.ConditionLike):
        if "filter" in cls.__dict__:
            _wrap(cls, "filter", rec_filter)
    _wrap(dp.DataPath, "get_data", rec_get)
    _wrap(valida.Rule, "test", rec_ruletest)
    _wrap(valida.Schema, "validate", rec_validate)


def pytest_sessionfinish(session, exitstatus):
    out = os.environ.get("VERIF_TRACE_OUT")
    if out:
        with open(out, "w") as fh:
            for e in _events:
                fh.write(json.dumps(e) + "\n")
            fh.write(json.dumps({"op": "_meta", "skipped": _skipped[0], "recorded": len(_events)}) + "\n")
