"""Shared plumbing of the checks: source tree binding, known findings, replay
files, evidence files, exit codes (DESIGN.md 5.2, 5.4, 7)."""
import hashlib
import json
import os
import pathlib
import subprocess
import sys
import time

VERIF = os.path.dirname(os.path.dirname(os.path.abspath(__file__)))
SRC = os.environ.get("VALIDA_SRC", "/repo")


def bind_source():
    """Make sure `import valida` is the working tree under test (no stale byte code)."""
    sys.dont_write_bytecode = True
    if SRC not in sys.path:
        sys.path.insert(0, SRC)
    for m in [m for m in sys.modules if m == "valida" or m.startswith("valida.")]:
        del sys.modules[m]
    import valida

    f = os.path.realpath(valida.__file__)
    if not f.startswith(os.path.realpath(SRC) + os.sep):
        raise RuntimeError(f"valida imported from {f}, expected under {SRC}")
    return f


def tree_revision():
    try:
        head = subprocess.run(["git", "-C", SRC, "rev-parse", "HEAD"], capture_output=True, text=True).stdout.strip()
        diff = subprocess.run(["git", "-C", SRC, "diff", "HEAD", "--", "valida"], capture_output=True, text=True).stdout
        return {"head": head, "diff_sha1": hashlib.sha1(diff.encode()).hexdigest() if diff else None}
    except Exception:
        return {"head": None, "diff_sha1": None}


# ---------------------------------------------------------------- literals for recipes / replay
_TYPES = {"int": int, "float": float, "str": str, "list": list, "dict": dict, "bool": bool,
          "NoneType": type(None), "Path": pathlib.Path, "PosixPath": pathlib.Path, "tuple": tuple}


def to_lit(x):
    if isinstance(x, type):
        return {"__type__": x.__name__}
    if isinstance(x, tuple):
        if len(x) == 3 and x[0] in ("and", "or", "xor") and x[1] is x[2]:
            return {"__tuple__": [x[0], to_lit(x[1]), "__same__"]}       # one object as both operands
        return {"__tuple__": [to_lit(i) for i in x]}
    if isinstance(x, list):
        return [to_lit(i) for i in x]
    if isinstance(x, dict):
        if all(isinstance(k, str) and not k.startswith("__") for k in x):
            return {k: to_lit(v) for k, v in x.items()}
        return {"__dict__": [[to_lit(k), to_lit(v)] for k, v in x.items()]}
    if isinstance(x, float) and x != x:
        return {"__float__": "nan"}
    return x


def from_lit(x):
    if isinstance(x, list):
        return [from_lit(i) for i in x]
    if isinstance(x, dict):
        if "__type__" in x:
            return _TYPES[x["__type__"]]
        if "__tuple__" in x:
            items = x["__tuple__"]
            if len(items) == 3 and items[2] == "__same__" and items[0] in ("and", "or", "xor"):
                left = from_lit(items[1])
                return (items[0], left, left)
            return tuple(from_lit(i) for i in items)
        if "__dict__" in x:
            return {from_lit(k): from_lit(v) for k, v in x["__dict__"]}
        if "__float__" in x:
            return float(x["__float__"])
        return {k: from_lit(v) for k, v in x.items()}
    return x


# ---------------------------------------------------------------- known findings
def load_findings(pid):
    path = os.path.join(VERIF, "known_findings.json")
    if not os.path.exists(path):
        return []
    with open(path) as fh:
        data = json.load(fh)
    return [f for f in data.get("findings", []) if f.get("property") == pid and f.get("status") == "open"]


def matches(finding, key):
    return all(key.get(k) == v for k, v in finding.get("match", {}).items())


class Report:
    """Collects what a check run covered and found; writes evidence; exit code."""

    def __init__(self, pid, tier, seed):
        self.pid = pid
        self.tier = tier
        self.seed = seed
        self.t0 = time.time()
        self.states = 0
        self.transitions = 0
        self.traces = 0
        self.evaluations = 0
        self.distinct = set()
        self.samples = []
        self.violations = []          # (key, replay path)
        self.known_hit = {}           # finding index -> count
        self.findings = load_findings(pid)
        self.extra = {}
        self.legs = []
        self.negative_cfgs = []
        self.unconstrained = 0
        self.skipped_unencodable = 0
        self.exhaustive = False
        self.rule = ""

    # -- accounting
    def add_tlc(self, res, name):
        self.states += res.get("distinct", 0)
        self.transitions += res.get("states", 0)
        self.legs.append({"leg": name, "states_generated": res.get("states", 0),
                          "distinct_states": res.get("distinct", 0), "wall_s": round(res.get("wall", 0.0), 2)})

    def note_case(self, signature, nontrivial=True):
        self.evaluations += 1
        if nontrivial:
            self.distinct.add(hashlib.sha1(signature.encode()).digest()[:10])

    def sample(self, x, limit=4):
        if len(self.samples) < limit:
            self.samples.append(x)

    # -- findings
    def reject(self, key, replay_obj):
        """A rejected event / behaviour.  key: dict of identifying fields (incl. clause)."""
        for i, f in enumerate(self.findings):
            if matches(f, key):
                self.known_hit[i] = self.known_hit.get(i, 0) + 1
                return "known"
        h = hashlib.sha1(json.dumps(key, sort_keys=True, default=str).encode()).hexdigest()[:12]
        d = os.path.join(VERIF, "out", "replay")
        os.makedirs(d, exist_ok=True)
        path = os.path.join(d, f"{self.pid}-{h}.json")
        if not any(p == path for _, p in self.violations):
            with open(path, "w") as fh:
                json.dump({"property": self.pid, "key": key, "case": replay_obj, "seed": self.seed,
                           "tree": tree_revision()}, fh, indent=1, default=str)
            self.violations.append((key, path))
        return "violation"

    # -- finish
    def finish(self, assumptions=None):
        for i, n in sorted(self.known_hit.items()):
            f = self.findings[i]
            print(f"KNOWN-FINDING: property={self.pid} {f.get('what', '')} [{n} case(s)]")
        shown = 0
        for key, path in self.violations:
            if shown < 25:
                print(f"VIOLATION property={self.pid} replay={path}")
                print("   " + json.dumps(key, default=str)[:400])
            shown += 1
        if shown > 25:
            print(f"... {shown - 25} further violations (replay files written)")
        cov = {
            "states": self.states,
            "transitions": self.transitions,
            "traces_validated_against_impl": self.traces,
            "samples": self.samples or ["(no case recorded)"],
            "evaluations": self.evaluations,
            "distinct_nontrivial": len(self.distinct),
            "rule": self.rule,
            "exhaustive": self.exhaustive,
            "unconstrained": self.unconstrained,
            "skipped_unencodable": self.skipped_unencodable,
            "negative_cfgs_rejected": self.negative_cfgs,
            "legs": self.legs,
            "known_findings_hit": sum(self.known_hit.values()),
            "tree": tree_revision(),
            "tlc": "TLC2 tla2tools.jar v1.8.0 (pre-installed)",
        }
        cov.update(self.extra)
        ev = {
            "property_id": self.pid,
            "tier": self.tier,
            "seed": self.seed,
            "level": "model_checking",
            "coverage": cov,
            "assumptions": assumptions or [
                "TLC and the TLA+ modules under /verif/spec (PyVal validated against CPython by selftest)",
                "harness/encode.py projection (attribute reads only) and the drivers",
                "universe bounds of DESIGN.md 3.2 (dyadic floats, |n| <= 1e8, ASCII strings without %)",
            ],
            "wall_s": round(time.time() - self.t0, 2),
            "violations": len(self.violations),
        }
        # evidence describes runs against /repo only; a run pointed elsewhere (VALIDA_SRC: seeded changes) keeps its
        # record under out/ so that it never replaces the evidence of the tree under verification
        evdir = os.path.join(VERIF, "evidence") if SRC == "/repo" else os.path.join(VERIF, "out", "evidence-other-tree")
        os.makedirs(evdir, exist_ok=True)
        with open(os.path.join(evdir, f"{self.pid}.json"), "w") as fh:
            json.dump(ev, fh, indent=1, default=str)
        print(f"[{self.pid}] tier={self.tier} seed={self.seed} states={self.states} transitions={self.transitions} "
              f"traces={self.traces} evaluations={self.evaluations} violations={len(self.violations)} "
              f"known={sum(self.known_hit.values())} wall={ev['wall_s']}s")
        return 1 if self.violations else 0
