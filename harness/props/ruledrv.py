"""Shared driver of C05, C06, C07, C15, C17: Rule.test / Schema.validate observations."""
import itertools
import random

from harness import gen, tlc
from harness.common import to_lit, from_lit
from harness.encode import enc_val, enc_rule, Unencodable, V
from harness.recipes import enc_rpart, enc_tree
from harness.tracer import watch
from harness.props.c01 import outcome_of

NULLPATH = {"parts": [], "concrete": True, "dt": "none", "mt": "none"}
NULLRULE = {"path": NULLPATH, "cond": {"t": "null"}, "cast": []}


# ------------------------------------------------------------------ recipes
class PathArg:
    """a data-path argument inside a condition recipe"""

    def __init__(self, rparts, dt="none", mt="none"):
        self.rparts, self.dt, self.mt = rparts, dt, mt

    def build(self):
        import valida.datapath as dp
        from harness.props.pathdrv import apply_mods

        return apply_mods(dp.DataPath(*[gen.build_part(p) for p in self.rparts]), self.dt, self.mt, "dm")

    def __repr__(self):
        return f"PathArg({self.rparts!r}, {self.dt!r}, {self.mt!r})"


def cast_dict(name):
    import valida.casting as vc

    if not name:
        return None
    return {str: vc.cast_string_to_bool} if name == "bool" else {str: int}


def cast_term(name):
    return [] if not name else [[3, name]]


VIA_SPEC = [None]      # when set to a random.Random: some rules are built from their SPEC (Rule.from_spec) instead of
                       # through the API - the same rule by C10; casts then come from the library's cast table


def build_rule(rr):
    import valida
    import valida.datapath as dp

    if VIA_SPEC[0] is not None and VIA_SPEC[0].random() < 0.3:
        from harness.props import c17, grammardrv as gd
        try:
            if c17.spec_expressible(rr):
                return valida.Rule.from_spec(gd.spell_rule(VIA_SPEC[0], rr))
        except Exception:        # not expressible as a spec after all (what specs can say is C09 / C10's business)
            pass

    parts = [gen.build_part(p) for p in rr["rparts"]]
    path = dp.DataPath(*parts)
    import zlib
    h = zlib.crc32(repr(rr["rparts"]).encode())
    if len(parts) >= 2 and h % 5 == 0 and any(not isinstance(p, tuple) for p in rr["rparts"]):
        # the same path JOINED from two paths with `/` (Ext.tla ConcatPath: the parts concatenated; with a fan-out part
        # on either side the result is not concrete, like the path built in one go)
        k = 1 + (h // 5) % (len(parts) - 1)
        path = dp.DataPath(*parts[:k]) / dp.DataPath(*parts[k:])
    if rr.get("pdt", "none") != "none" or rr.get("pmt", "none") != "none":
        from harness.props.pathdrv import apply_mods
        path = apply_mods(path, rr.get("pdt", "none"), rr.get("pmt", "none"), "dm")
    return valida.Rule(path=path, condition=build_cond(rr["cond"]), cast=cast_dict(rr.get("cast")))


def map_args(t, f):
    if t[0] in ("null",):
        return t
    if t[0] == "leaf":
        rec = dict(t[1])
        rec["actuals"] = [f(a) for a in rec["actuals"]]
        rec["akw"] = {k: f(v) for k, v in rec["akw"].items()}
        return ("leaf", rec)
    left = map_args(t[1], f)
    return (t[0], left, left if t[2] is t[1] else map_args(t[2], f))      # (sharing of the two operands is kept)


def deep_map(v, f):
    if isinstance(v, PathArg):
        return f(v)
    if isinstance(v, list):
        return [deep_map(i, f) for i in v]
    if isinstance(v, tuple):
        return tuple(deep_map(i, f) for i in v)
    if isinstance(v, dict):
        return {k: deep_map(x, f) for k, x in v.items()}
    return v


def build_cond(t):
    return gen.build_tree(map_args(t, lambda a: deep_map(a, lambda p: p.build())))


def enc_val_r(v):
    """enc_val with PathArg -> rdpath recipe values"""
    if isinstance(v, PathArg):
        return V("rdpath", 0, [{"rparts": [enc_rpart(p) for p in v.rparts], "dt": v.dt, "mt": v.mt}])
    if isinstance(v, list):
        return V("list", 0, [enc_val_r(i) for i in v])
    if isinstance(v, tuple):
        return V("tuple", 0, [enc_val_r(i) for i in v])
    if isinstance(v, dict):
        return V("map", 0, [[enc_val_r(k), enc_val_r(x)] for k, x in v.items()])
    return enc_val(v)


def enc_tree_r(t):
    if t[0] == "null":
        return {"t": "null"}
    if t[0] == "leaf":
        rec = t[1]
        return {"t": "rleaf", "fn": rec["fn"], "datum": rec["datum"], "pre": rec["pre"],
                "actuals": [enc_val_r(a) for a in rec["actuals"]],
                "akw": [{"name": k, "nc": [ord(ch) for ch in k], "v": enc_val_r(v)} for k, v in rec["akw"].items()]}
    return {"t": t[0], "l": enc_tree_r(t[1]), "r": enc_tree_r(t[2])}


def enc_rule_recipe(rr):
    return {"rparts": [enc_rpart(p) for p in rr["rparts"]], "dt": rr.get("pdt", "none"), "mt": rr.get("pmt", "none"),
            "rcond": enc_tree_r(rr["cond"]), "cast": cast_term(rr.get("cast"))}


def lit_rule(rr):
    return {"rparts": to_lit(rr["rparts"]), "cond": to_lit(_lit_tree(rr["cond"])), "cast": rr.get("cast"),
            "pdt": rr.get("pdt", "none"), "pmt": rr.get("pmt", "none")}


def _lit_tree(t):
    return map_args(t, lambda a: deep_map(a, lambda p: {"__patharg__": [to_lit(p.rparts), p.dt, p.mt]}))


def unlit_rule(lr):
    def fix_parts(ps):
        return [tuple(p) if isinstance(p, (list, tuple)) else _fix_part(p) for p in ps]

    def _fix_arg(x):
        if x is None:
            return None
        if isinstance(x, (list, tuple)):
            x = tuple(x)
            if x[0] == "prim":
                return x
            return _fix_tree(x)
        return x

    def _fix_part(p):
        return {k: (_fix_arg(v) if k in ("key", "index", "value", "cond", "lcond", "mcond") else v) for k, v in p.items()}

    def _fix_tree(t):
        t = tuple(t)
        if t[0] == "null":
            return ("null",)
        if t[0] == "leaf":
            rec = dict(t[1])
            rec["actuals"] = [unp(a) for a in rec["actuals"]]
            rec["akw"] = {k: unp(v) for k, v in rec["akw"].items()}
            return ("leaf", rec)
        return (t[0], _fix_tree(t[1]), _fix_tree(t[2]))

    def unp(v):
        if isinstance(v, dict) and "__patharg__" in v:
            ps, dt, mt = v["__patharg__"]
            return PathArg(fix_parts(from_lit(ps)), dt, mt)
        if isinstance(v, list):
            return [unp(i) for i in v]
        if isinstance(v, tuple):
            return tuple(unp(i) for i in v)
        if isinstance(v, dict):
            return {k: unp(x) for k, x in v.items()}
        return v

    return {"rparts": fix_parts(from_lit(lr["rparts"])), "cond": _fix_tree(from_lit(lr["cond"])), "cast": lr.get("cast"),
            "pdt": lr.get("pdt", "none"), "pmt": lr.get("pmt", "none")}


# ------------------------------------------------------------------ observations
def obs_fail(f):
    rs = f.reasons
    return {"value": enc_val(f.value), "path": enc_val(tuple(f.path)),
            "nreasons": len(rs) if rs is not None else 0,
            "reasons_str": bool(rs is not None and all(isinstance(r, str) for r in rs))}


def blank(i, op):
    return {"id": i, "op": op, "entry": "", "rule": {"rparts": [], "dt": "none", "mt": "none", "rcond": {"t": "null"}, "cast": []},
            "proj": NULLRULE, "doc": V("none"), "outcome": "", "valid": True, "tested": False, "nfail": 0,
            "fails": [], "data": V("none"), "has_lit": False, "lit_outcome": "", "lit_valid": True,
            "lit_tested": False, "lit_fails": [],
            "rules": [], "order": [], "ntested": 0, "tests": [], "cast_data": V("none"), "report_is_str": True,
            "report_names_all": True, "has_base": False, "base_valid": True, "base_nfail": 0, "base_ntested": 0,
            "base_failset": [], "failset": [], "writes": [], "unchanged": True}


def ruletest_event(i, rr, doc, entry="raw", lit=None, spec=None, shared=None):
    """spec: when given, the rule is built by Rule.from_spec(spec) (a spelling of the recipe rr) instead of the API.
    shared: a dict kept by the caller; the Rule object built on the first call is re-used on later calls."""
    import valida

    e = blank(i, "ruletest")
    e["entry"] = entry
    e["rule"] = enc_rule_recipe(rr)
    e["doc"] = enc_val(doc)
    if shared is not None and "rule" in shared:
        out0, rule = "ok", shared["rule"]
    elif spec is not None:
        out0, rule = outcome_of(lambda: valida.Rule.from_spec(spec))
    else:
        out0, rule = outcome_of(lambda: build_rule(rr))
    if shared is not None and rule is not None:
        shared["rule"] = rule
    if out0 in ("raised:TypeError", "raised:ValueError"):
        raise TypeError("unconstructible recipe")
    if out0 != "ok":
        e["outcome"] = out0                       # an internal error while building: judged as a raise
        return e
    e["proj"] = enc_rule(rule)
    arg = doc if entry == "raw" else valida.Data(doc)
    with watch(objs=[rule], docs=[doc]) as w:
        out, rt = outcome_of(lambda: rule.test(arg))
    e["outcome"] = out
    e["writes"] = w.writes
    e["unchanged"] = bool(w.objs_unchanged and w.docs_unchanged)
    if rt is not None:
        e["valid"] = bool(rt.is_valid)
        e["tested"] = bool(rt.tested)
        e["nfail"] = int(rt.num_failures)
        e["fails"] = [obs_fail(f) for f in rt.failures]
        e["data"] = enc_val(rt.data.get_original())
    if lit is not None:
        e["has_lit"] = True
        lrule = build_rule(lit)
        out2, rt2 = outcome_of(lambda: lrule.test(doc))
        e["lit_outcome"] = out2
        if rt2 is not None:
            e["lit_valid"] = bool(rt2.is_valid)
            e["lit_tested"] = bool(rt2.tested)
            e["lit_fails"] = [obs_fail(f) for f in rt2.failures]
    return e


def assemble(rules, k):
    """Schema(rules[:k]) with Schema(rules[k:]) added at the empty root"""
    import valida

    import copy

    s = valida.Schema(list(rules[:k]))
    held = copy.copy(s)                    # another holder of the schema as it is now (a shallow copy: same rule list)
    before = list(s.rules)
    t = valida.Schema(list(rules[k:]))
    t_held = copy.copy(t)
    s.add_schema(t, valida.DataPath())
    # adding to s is no business of whoever holds the earlier state, nor of the added schema's holders
    if len(held.rules) != len(before) or any(a is not b for a, b in zip(held.rules, before)) or len(t_held.rules) != len(rules) - k:
        raise AssertionError("add_schema changed a rule list held by somebody else")
    return s


def validate_obs(rules_rr, doc, shared=None, as_data=False):
    """run Schema(rules).validate(doc); returns (outcome, dict of observations).
    shared: a dict kept by the caller: the Schema object (and its rules) built on the first call is RE-USED on later
    calls with the same dict, so that anything a validation leaves behind in the schema shows in the next one."""
    import valida

    if shared is not None and "schema" in shared:
        rules, schema = shared["rules"], shared["schema"]
    else:
        out0, rules = outcome_of(lambda: [build_rule(rr) for rr in rules_rr])
        if out0 in ("raised:TypeError", "raised:ValueError"):
            raise TypeError("unconstructible recipe")
        if out0 != "ok":
            return out0, {"outcome": out0, "order": [], "writes": [], "unchanged": True}
        # construction route (content-derived, so a replay takes the same one): one in three schemas is assembled
        # from two schemas with add_schema at the empty root - by the specification (AddSchema.tla with an empty
        # root, stable sort) the very same schema as Schema(rules)
        import zlib
        h = zlib.crc32(repr((rules_rr, doc)).encode())
        if h % 3 == 0 and rules:
            k = (h // 3) % (len(rules) + 1)
            out1, schema = outcome_of(lambda: assemble(rules, k))
            if out1 != "ok":
                return out1, {"outcome": out1, "order": [], "writes": [], "unchanged": True}
        else:
            # the rules may be handed over as any iterable: a list, a tuple, an iterator, a generator
            giv = [lambda: rules, lambda: tuple(rules), lambda: iter(rules), lambda: (r for r in rules),
                   lambda: list(rules), lambda: rules][h % 6]
            out1, schema = outcome_of(lambda: valida.Schema(giv()))
            if out1 != "ok":
                return out1, {"outcome": out1, "order": [], "writes": [], "unchanged": True}
        if shared is not None:
            shared["rules"], shared["schema"] = rules, schema
    order = []
    for r in schema.rules:
        same = [j for j, x in enumerate(rules, 1) if x is r]
        order.append(same[0] if same else next(j for j, x in enumerate(rules, 1) if x.condition is r.condition))
    arg = valida.Data(doc) if as_data else doc
    with watch(objs=[schema], docs=[doc]) as w:
        out, vd = outcome_of(lambda: schema.validate(arg))
    o = {"outcome": out, "order": order, "writes": w.writes,
         "unchanged": bool(w.objs_unchanged and w.docs_unchanged)}
    if vd is not None:
        o["valid"] = bool(vd.is_valid)
        o["nfail"] = int(vd.num_failures)
        o["ntested"] = int(vd.num_rules_tested)
        o["tests"] = [{"valid": bool(t.is_valid), "tested": bool(t.tested), "fails": [obs_fail(f) for f in t.failures]}
                      for t in vd.rule_tests]
        o["cast_data"] = enc_val(vd.cast_data)
        out2, rep = outcome_of(lambda: vd.get_failures_string())
        o["report_is_str"] = out2 == "ok" and isinstance(rep, str)
        names = True
        if isinstance(rep, str):
            for t in vd.rule_tests:
                for f in t.failures:
                    if repr(f.path) not in rep:
                        names = False
        o["report_names_all"] = names
        o["failset_raw"] = [(order[k], f.path) for k, t in enumerate(vd.rule_tests) for f in t.failures]
    return out, o


def validate_event(i, rules_rr, doc, perm=None, base=None, shared=None, as_data=False):
    """perm: positions (1-based, into the base rule list) of the rules as given here"""
    e = blank(i, "validate")
    e["rules"] = [enc_rule_recipe(rr) for rr in rules_rr]
    e["doc"] = enc_val(doc)
    out, o = validate_obs(rules_rr, doc, shared, as_data)
    e["entry"] = "Data" if as_data else "raw"
    e["outcome"] = out
    e["order"] = o["order"]
    e["writes"] = o["writes"]
    e["unchanged"] = o["unchanged"]
    perm = perm or list(range(1, len(rules_rr) + 1))
    if out == "ok":
        for k in ("valid", "nfail", "ntested", "tests", "cast_data", "report_is_str", "report_names_all"):
            e[k] = o[k]
        e["failset"] = [{"ri": perm[ri - 1], "path": enc_val(tuple(p))} for ri, p in o["failset_raw"]]
    if base is not None and base.get("outcome") == "ok" and out == "ok":
        e["has_base"] = True
        e["base_valid"], e["base_nfail"], e["base_ntested"] = base["valid"], base["nfail"], base["ntested"]
        e["base_failset"] = base["failset"]
    return e


def retype(rng, x, p=0.6):
    """an equal-under-python-== but differently typed copy: 1 <-> True <-> 1.0, 0 <-> False <-> 0.0, 2 <-> 2.0"""
    if isinstance(x, dict):
        return {k: retype(rng, v, p) for k, v in x.items()}
    if isinstance(x, list):
        return [retype(rng, v, p) for v in x]
    if rng.random() > p:
        return x
    if isinstance(x, bool):
        return rng.choice([int(x), float(x)])
    if isinstance(x, int) and x in (0, 1):
        return rng.choice([bool(x), float(x)])
    if isinstance(x, int) and abs(x) < 10 ** 6:
        return float(x)
    if isinstance(x, float) and x == int(x):
        return int(x) if x not in (0.0, 1.0) else rng.choice([int(x), bool(x)])
    return x


# ------------------------------------------------------------------ generators
WELL_TYPED_FNS = None


def value_tree(rng, depth=2, well_typed=False, fns=None):
    return gen.tree_recipe(rng, depth=rng.randint(0, depth), kinds=gen.VALUE_KINDS, well_typed=well_typed,
                           null_p=0.05, fns=fns)


def rule_recipe(rng, doc, well_typed=False, cast_p=0.0, maxlen=3, fns=None):
    rparts = gen.path_recipe(rng, doc, maxlen=maxlen)
    cast = None
    if rng.random() < cast_p:
        cast = rng.choice(["bool", "int"])
    return {"rparts": rparts, "cond": value_tree(rng, 2, well_typed, fns), "cast": cast}


CAST_STRS = ["true", "FALSE", "True", "3", " 7 ", "x3", "", "-2", "1_0", "tru", "0", "+5", "1.5", "false ",
             "fal\u017fe", "TRUE\u2003", "\u00a07", "\u0663", "1\uff13", "\t3", "\x1f5", "tRuE", "1__0", "_1", "\u2003true",
             # strings that float() accepts and int() does not (a str -> int cast leaves them as they are)
             "inf", "Infinity", "-inf", "1e3", "1E2", "nan", "1e999", "2.0"]


def cast_document(rng, depth=3):
    """documents with castable and uncastable strings under keys of every type, in lists too"""
    def val(d):
        r = rng.random()
        if d <= 0 or r < 0.5:
            return rng.choice(CAST_STRS) if rng.random() < 0.7 else gen.scalar(rng)
        if r < 0.75:
            return [val(d - 1) for _ in range(rng.randint(0, 3))]
        ks = gen.distinct_keys(rng, rng.randint(0, 3), strish=0.5)
        return {k: val(d - 1) for k in ks}

    if rng.random() < 0.4:
        return [val(depth - 1) for _ in range(rng.randint(1, 4))]
    ks = gen.distinct_keys(rng, rng.randint(1, 4), strish=0.5)
    return {k: val(depth - 1) for k in ks}


def judge(rep, events, recipes, keyf):
    res = tlc.accept("Trace_Rule", "Trace_Rule.cfg", events, env={"VERIF_PROP": rep.pid if rep.pid == "C15" else ""})
    rep.add_tlc(res, "B:Trace_Rule")
    rep.traces += len(events)
    byid = {e["id"]: e for e in events}
    for m in res["mismatches"]:
        e = byid[m["id"]]
        rep.reject(keyf(m, e), {"recipe": recipes[m["id"]], "event": e})
    return res


def default_key(m, e):
    return {"clause": m["clause"], "op": e["op"], "outcome": e["outcome"]}


def replay(rep, case):
    r = case["case"]["recipe"]
    doc = from_lit(r["doc"])
    if r.get("sub"):
        doc = gen.subclassify(doc)
    if r["op"] == "ruletest":
        rr = unlit_rule(r["rule"])
        lit = unlit_rule(r["lit"]) if r.get("lit") else None
        ev = [ruletest_event(1, rr, doc, r.get("entry", "raw"), lit)]
    else:
        rrs = [unlit_rule(x) for x in r["rules"]]
        base = None
        if r.get("base_rules"):
            b = validate_event(0, [unlit_rule(x) for x in r["base_rules"]], doc)
            base = b
        ev = [validate_event(1, rrs, doc, perm=r.get("perm"), base=base)]
    res = tlc.accept("Trace_Rule", "Trace_Rule.cfg", ev, shards=1, env={"VERIF_PROP": rep.pid if rep.pid == "C15" else ""})
    rep.add_tlc(res, "B:Trace_Rule(replay)")
    rep.traces += 1
    for m in res["mismatches"]:
        e = ev[0]
        print("REPLAY mismatch:", m["clause"], e["outcome"])
        rep.reject(default_key(m, e), {"recipe": r, "event": e})
    rep.sample({"replayed": r})
