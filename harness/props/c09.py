"""C09 - condition specs mean exactly what the equivalent Python DSL expression means.
Leg A: MC_Grammar (every spelling variant of every term of a TLA+ universe parses back to the term).
Leg C: those TLC-generated spellings parsed by the real from_spec, judged by Trace_Grammar.
Leg B: seeded DSL recipes x random spellings (per-character case, aliases, list/mapping arguments, type names/objects,
       and/or/xor lists incl. flattened chains) parsed by the real from_spec; TLC compares the projection with its own
       parse of the spelling; the parsed object must == the DSL-built one (both directions) and filter identically."""
import random

from harness import gen, tlc
from harness.common import to_lit
from harness.encode import dec_val, Unencodable
from harness.props import grammardrv as gd
from harness.props.c01 import outcome_of

PROBES = [[1, "a", 2.5, None, [1], {"a": 1}], {"a": 1, "b": "x", "ab": [1, 2], "c": {"a": 2}}, [0, True, "", {}]]


def same_behaviour(a, b):
    for d in PROBES:
        ra = outcome_of(lambda: list(a.filter(d).result))
        rb = outcome_of(lambda: list(b.filter(d).result))
        if ra != rb:
            return False
    return True


def run(rep, tier, seed):
    gd.pollute()        # same-named custom callables have been used in this process before any spec is parsed
    a = tlc.model_check_sharded("MC_Grammar", "MC_Grammar.cfg", nshards=8)
    rep.add_tlc(a, "A:MC_Grammar")
    if not a["ok"]:
        raise tlc.MachineryError("leg A: MC_Grammar violated on the shipped specification\n" + a["out"][-2500:])
    events, recipes = [], {}
    # leg C: TLC-generated spellings
    g = tlc.generate("Gen_Grammar", "Gen_Grammar.cfg", timeout=1200)
    rep.add_tlc(g, "C:Gen_Grammar")
    sp = [b for b in g["behaviours"] if b.get("kind") == "spelling"]
    if len(sp) < 100:
        raise tlc.MachineryError("Gen_Grammar printed too few spellings")
    for b in sp:
        try:
            spec = dec_val(b["spec"])
            e = gd.parse_event(len(events) + 1, "parse_cond", spec)
        except (Unencodable, ValueError):
            rep.skipped_unencodable += 1
            continue
        events.append(e)
        recipes[e["id"]] = {"op": "parse_cond", "spec": to_lit(dec_val(b["spec"])), "src": "TLC", "variant": b["variant"]}
        rep.note_case("tlc" + repr((b["ti"], b["variant"])))
    # leg B: random recipes and spellings
    rng = random.Random(seed + 9)
    for _ in range(5000 if tier == "quick" else 80000):
        t = gd.spec_tree_recipe(rng, depth=rng.choice([0, 0, 1, 2, 3]), kinds=gd.kinds_for(rng))
        if rng.random() < 0.15:
            from harness.props.c14 import duplicate_operand
            t = duplicate_operand(rng, t)              # e.g. {"xor": [c, c]} against c ^ c
        if rng.random() < 0.04:
            # sibling operands of ONE callable whose arguments are mappings of several entries (spelled in either order)
            # next to mappings that would sort between / before / after them as text
            L = lambda fn, acts, akw: ("leaf", {"datum": "value", "pre": "none", "fn": fn, "actuals": acts, "akw": akw})   # noqa: E731
            ks = rng.sample(["a", "b", "k", "m", "q", "z"], 3)
            big = {ks[0]: rng.choice([1, 2]), ks[1]: rng.choice([0, 1])}
            if rng.random() < 0.3:
                big["c"] = 3
            small = {rng.choice([ks[2], "l", "m", "n"]): rng.choice([0, 1])}
            if rng.random() < 0.6:
                x, y = L("items_contain", [], dict(big)), L("items_contain", [], dict(small))
            else:
                fn = rng.choice(["equal_to", "not_equal_to", "in_"])
                x, y = L(fn, [[dict(big), 0] if fn == "in_" else dict(big)], {}), L(fn, [[dict(small), 0] if fn == "in_" else dict(small)], {})
            t = (rng.choice(["and", "or", "xor"]), x, y) if rng.random() < 0.5 else (rng.choice(["and", "or", "xor"]), y, x)
            if rng.random() < 0.3:
                t = (rng.choice(["and", "or"]), t, L("truthy", [], {}))
        has_paths = False
        if rng.random() < 0.12:
            # arguments that are data paths (whole argument, items of a list / tuple, values of a mapping / keyword
            # arguments; zero to several parts; with modifiers): {"path...": [...]} in the spec, DataPath(...) in the DSL
            from harness.props import c17, ruledrv
            doc = gen.document(rng, depth=2, strish=0.8)
            t2 = c17.cross_cond(rng, doc)
            if c17.spec_expressible({"rparts": [], "cond": t2}):
                t, has_paths = t2, True
        use_ops = rng.random() < 0.5                   # the DSL expression: python operators or the classes
        if has_paths:
            out, dsl = outcome_of(lambda: ruledrv.build_cond(t))
        else:
            out, dsl = outcome_of(lambda: gen.build_tree(t, operators=use_ops))
        if dsl is None:
            continue
        try:
            spec = gd.spell_tree(rng, t)
            if spec is None:
                spec = {}
            lit = to_lit(spec)
            e = gd.parse_event(len(events) + 1, "parse_cond", spec, dsl=dsl)
        except Unencodable:
            rep.skipped_unencodable += 1
            continue
        if e["outcome"] == "ok":
            parsed = gd.do_parse("parse_cond", gd.from_lit(lit))
            if not has_paths and not same_behaviour(parsed, dsl):
                e["eq_dsl"] = False
        events.append(e)
        recipes[e["id"]] = {"op": "parse_cond", "spec": lit, "src": "random"}
        rep.note_case(repr(lit))
        if rng.random() < 0.04:
            # the SAME key spelled the same way with an argument TUPLE, then with its ==-but-differently-typed twin
            # (hash-equal): two different conditions, whatever was parsed before
            fn = rng.choice(["in_range", "not_in_range", "in_", "not_in", "equal_to"])
            key = gd.rcase(rng, "value") + "." + gd.rcase(rng, {"in_": "in"}.get(fn, fn))
            a = rng.choice([(1, 5), (0, 3), (2, 2), (1, 0)])
            b = tuple(rng.choice([float(x), bool(x)] if x in (0, 1) else [float(x)]) for x in a[:1]) + a[1:]
            for vals in (a, b):
                if fn in ("in_range", "not_in_range"):
                    rec = {"datum": "value", "pre": "none", "fn": fn, "actuals": list(vals), "akw": {}}
                else:
                    rec = {"datum": "value", "pre": "none", "fn": fn, "actuals": [vals], "akw": {}}
                outd, dsl2 = outcome_of(lambda: gen.build_leaf(rec))
                try:
                    e2 = gd.parse_event(len(events) + 1, "parse_cond", {key: vals}, dsl=dsl2)
                except Unencodable:
                    break
                events.append(e2)
                recipes[e2["id"]] = {"op": "parse_cond", "spec": to_lit({key: vals}), "src": "tuple twins"}

    def keyf(m, e, r):
        k = {"clause": m["clause"], "op": e["op"], "outcome": e["outcome"]}
        spec = gd.from_lit(r["spec"]) if r else None
        if isinstance(spec, dict) and len(spec) == 1:
            k["callable"] = str(next(iter(spec))).split(".")[-1].lower()
        return k

    gd.judge(rep, events, recipes, "C09", keyf)
    for e in events[:: max(1, len(events) // 3)][:3]:
        rep.sample({"src": recipes[e["id"]], "outcome": e["outcome"]})
    rep.rule = (f"leg C: {len(sp)} TLC-generated (term, spelling variant) pairs; leg B: seeded DSL recipes (all 7 classes x "
                "callables, nested and/or/xor with nulls) x random spellings; each parsed by the real from_spec; TLC parses "
                "the same spelling with Grammar.tla and compares with the projection; == with the DSL-built object in both "
                "directions and identical filtering on 3 probe documents; distinct by spec structure")
    rep.extra["events"] = len(events)


def replay(rep, case):
    gd.replay(rep, case, "C09")
