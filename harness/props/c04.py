"""C04 - reported concrete paths are truthful; path modifiers mean what they say.
Leg A: MC_Path (Truthful, Distinct, modifier laws).  Leg B: same driver as C03 with return_paths and every
datum x multiplicity modifier in both application orders; multiplicity refused on concrete paths."""
from harness import tlc
from harness.props import pathdrv


def run(rep, tier, seed):
    a = tlc.model_check_sharded("MC_Path", "MC_Path_mod.cfg")
    rep.add_tlc(a, "A:MC_Path(modifiers)")
    if not a["ok"]:
        raise tlc.MachineryError("leg A: MC_Path violated on the shipped specification\n" + a["out"][-2500:])
    np_, nd = pathdrv.run_path_check(rep, tier, seed, modifiers=True, label="C04")
    # modifiers belong to the path they were applied to: a path JOINED from it (`p / q`, also with the empty path) is a
    # new path without them (Ext.tla ConcatPath), judged by the Trace_Ext acceptor
    import random
    from harness import extras
    rng = random.Random(seed + 404)
    cevs = [e for e in extras.make_events(rng, 2400 if tier == "quick" else 30000) if e["op"] == "concat"]
    for j, e in enumerate(cevs, 1):
        e["id"] = j
    cres = tlc.accept("Trace_Ext", "Trace_Ext.cfg", cevs)
    rep.add_tlc(cres, "B:Trace_Ext(concat)")
    rep.traces += len(cevs)
    for m in cres["mismatches"]:
        e = cevs[m["id"] - 1]
        rep.reject({"clause": m["clause"], "entry": "concat", "outcome": e["outcome"], "dt": e["p"]["dt"], "mt": e["p"]["mt"]},
                   {"recipe": {"concat": True}, "event": e})
    rep.extra["concat_events"] = len(cevs)
    rep.rule = (f"leg B: {np_} small paths x {nd} documents x datum x multiplicity modifiers x both orders, with and "
                "without paths, + seeded random; clauses Truthful / PathsDistinct / WithoutPathsSameValues / "
                "ResultWithPathsIsWalk / MultiplicityRefusedOnConcrete; non-trivial = non-empty selection or a raise")


def replay(rep, case):
    if case["case"].get("recipe", {}).get("concat"):
        e = case["case"]["event"]
        print("recorded concatenation event (re-run the check to reproduce)")
        rep.reject({"clause": "ConcatIsPartsConcatenated", "entry": "concat", "outcome": e.get("outcome"), "dt": "", "mt": ""}, case["case"])
        rep.states += 1
        rep.transitions += 1
        rep.traces += 1
        rep.sample({"recorded": "concat"})
        return
    return pathdrv.replay(rep, case)
