"""C04 - reported concrete paths are truthful; path modifiers mean what they say.
Leg A: MC_Path (Truthful, Distinct, modifier laws).  Leg B: same driver as C03 with return_paths and every
datum x multiplicity modifier in both application orders; multiplicity refused on concrete paths."""
from harness import tlc
from harness.props import pathdrv


def run(rep, tier, seed):
    a = tlc.model_check_sharded("MC_Path", "MC_Path_mod.cfg")
    rep.add_tlc(a, "A:MC_Path(modifiers)")
    if not a["ok"]:
        raise tlc.MachineryError("leg A: MC_Path violated on the shipped specification\n" + a["out"][-2500:])
    np_, nd = pathdrv.run_path_check(rep, tier, seed, modifiers=True, label="C04")
    rep.rule = (f"leg B: {np_} small paths x {nd} documents x datum x multiplicity modifiers x both orders, with and "
                "without paths, + seeded random; clauses Truthful / PathsDistinct / WithoutPathsSameValues / "
                "ResultWithPathsIsWalk / MultiplicityRefusedOnConcrete; non-trivial = non-empty selection or a raise")


replay = pathdrv.replay
