"""C06 - schema verdict is the order-independent conjunction of its rules' verdicts.
Leg A: MC_Schema_c06 (every sequence of <= 4 rules from a pool, i.e. every permutation of every multiset: permutation
       invariance, stable order, aggregates).  Leg B: random cast-free schemas of 0..6 rules validated under every /
       several permutations; each validation judged by Trace_Rule against Schema.tla, and against the base permutation."""
import itertools
import random

from harness import gen, tlc
from harness.common import to_lit
from harness.encode import Unencodable
from harness.props import ruledrv


def confusable(rng, doc):
    """rules whose paths differ only in the TYPE of a key (1 vs "1" vs 1.0 vs True, "a" vs "a "), on a document in
    which those paths address different nodes (a mapping holding both keys, a list next to a mapping)"""
    k1, k2 = rng.choice([(1, "1"), (0, "0"), (2, "2"), ("a", "a "), (1, "01"), (2, 2.5)])
    sub = rng.choice([{k1: rng.choice([0, 5, "x"]), k2: rng.choice([9, "y", [1]])},
                      [rng.choice([0, 7]), rng.choice([3, "z"]), rng.choice([8, None])],
                      {k2: rng.choice([1, "q"])}])
    key = rng.choice(["x", "a", 0])
    if isinstance(doc, dict):
        doc = dict(doc)
        doc[key] = sub
        head = [("prim", key)]
    else:
        doc = list(doc) + [sub]
        head = [("prim", len(doc) - 1)]
    conds = [ruledrv.value_tree(rng, 1) for _ in range(2)]
    rules = [{"rparts": head + [("prim", k1)], "cond": conds[0], "cast": None},
             {"rparts": head + [("prim", k2)], "cond": conds[1], "cast": None}]
    if rng.random() < 0.5:
        rules.append({"rparts": head + [("prim", k1)], "cond": conds[1], "cast": None})
    return doc, rules


def run(rep, tier, seed):
    a = tlc.model_check_sharded("MC_Schema", "MC_Schema_c06.cfg")
    rep.add_tlc(a, "A:MC_Schema_c06")
    if not a["ok"]:
        raise tlc.MachineryError("leg A: MC_Schema_c06 violated on the shipped specification\n" + a["out"][-2500:])
    rng = random.Random(seed + 6)
    events, recipes = [], {}
    nschemas = 350 if tier == "quick" else 12000
    for s in range(nschemas):
        doc = gen.document(rng, depth=rng.choice([2, 3, 3]), strish=0.7)
        n = rng.choice([0, 1, 2, 2, 3, 3, 4, 4, 5, 6])
        rrs = []
        for _ in range(n):
            if rrs and rng.random() < 0.15:
                rrs.append(rng.choice(rrs))              # identical rule twice
            else:
                rrs.append(ruledrv.rule_recipe(rng, doc, maxlen=3))
        if rng.random() < 0.06:
            # a failing node far down a long path / under a long key: the report must still name it in full
            keys = [rng.choice([gen.LONG, "a", 0, "b", 1, gen.LONG + "x", "", 2]) for _ in range(rng.choice([2, 5, 7, 9]))]
            leaf = rng.choice([0, "x", None, [1]])
            sub = leaf
            for k in reversed(keys):
                sub = {k: sub} if not (isinstance(k, int) and not isinstance(k, bool)) else [0] * k + [sub]
            top = rng.choice(["deep", gen.LONG])
            doc = dict(doc, **{top: sub}) if isinstance(doc, dict) else list(doc) + [sub]
            head = [("prim", top)] if isinstance(doc, dict) else [("prim", len(doc) - 1)]
            L = lambda fn, *a: ("leaf", {"datum": "value", "pre": "none", "fn": fn, "actuals": list(a), "akw": {}})   # noqa: E731
            rrs = rrs[:3] + [{"rparts": head + [("prim", k) for k in keys], "cond": rng.choice([L("equal_to", 1), L("is_instance", dict), L("greater_than", 5)]), "cast": None}]
            rng.shuffle(rrs)
            n = len(rrs)
        if rng.random() < 0.35:
            doc, extra = confusable(rng, doc)
            rrs = (rrs + extra)[-6:] if extra else rrs
            rng.shuffle(rrs)
            n = len(rrs)
        try:
            base = ruledrv.validate_event(len(events) + 1, rrs, doc, as_data=rng.random() < 0.3)
        except Unencodable:
            rep.skipped_unencodable += 1
            continue
        except (TypeError, ValueError):
            continue
        events.append(base)
        recipes[base["id"]] = {"op": "validate", "rules": [ruledrv.lit_rule(r) for r in rrs], "doc": to_lit(doc)}
        rep.note_case(repr((rrs, doc)), nontrivial=base["ntested"] > 0)
        if rng.random() < 0.5:
            # the SAME Schema object validates the document, then an equal-but-differently-typed one, then the first again
            shared = {}
            for d2 in (doc, ruledrv.retype(rng, doc), doc):
                try:
                    e = ruledrv.validate_event(len(events) + 1, rrs, d2, shared=shared)
                except Unencodable:
                    break
                events.append(e)
                recipes[e["id"]] = {"op": "validate", "rules": [ruledrv.lit_rule(r) for r in rrs], "doc": to_lit(d2),
                                    "note": "third of a sequence on one shared Schema object"}
                rep.note_case(repr((rrs, d2, "shared")), nontrivial=e["ntested"] > 0)
        idx = list(range(1, n + 1))
        if n <= 4:
            perms = [p for p in itertools.permutations(idx)][1:]
            if tier == "quick" and len(perms) > 6:
                perms = rng.sample(perms, 6)
        else:
            perms = [tuple(rng.sample(idx, n)) for _ in range(4 if tier == "quick" else 10)]
        for p in perms:
            prr = [rrs[j - 1] for j in p]
            e = ruledrv.validate_event(len(events) + 1, prr, doc, perm=list(p), base=base, as_data=rng.random() < 0.3)
            events.append(e)
            recipes[e["id"]] = {"op": "validate", "rules": [ruledrv.lit_rule(r) for r in prr], "doc": to_lit(doc),
                                "perm": list(p), "base_rules": [ruledrv.lit_rule(r) for r in rrs]}
            rep.note_case(repr((prr, doc)), nontrivial=e["ntested"] > 0)
    ruledrv.judge(rep, events, recipes, ruledrv.default_key)
    from harness import repotrace

    def fill(i):
        b = ruledrv.blank(i, "validate_proj")
        b["projs"] = []
        return b
    repotrace.judge(rep, "validate_proj", "Trace_Rule", fill)
    for e in events[:: max(1, len(events) // 2)][:2]:
        rep.sample({"src": recipes[e["id"]], "valid": e["valid"], "nfail": e["nfail"], "ntested": e["ntested"], "order": e["order"]})
    rep.rule = (f"leg B: {nschemas} seeded cast-free schemas of 0..6 rules (duplicates, equal path lengths) x all (<= 4 rules) or "
                "sampled permutations; observing is_valid, num_failures, num_rules_tested, per-rule verdicts and failures, "
                "Schema.rules order, report text; non-trivial = at least one rule tested")
    rep.extra["events"] = len(events)


replay = ruledrv.replay
