"""C06 - schema verdict is the order-independent conjunction of its rules' verdicts.
Leg A: MC_Schema_c06 (every sequence of <= 4 rules from a pool, i.e. every permutation of every multiset: permutation
       invariance, stable order, aggregates).  Leg B: random cast-free schemas of 0..6 rules validated under every /
       several permutations; each validation judged by Trace_Rule against Schema.tla, and against the base permutation."""
import itertools
import random

from harness import gen, tlc
from harness.common import to_lit
from harness.encode import Unencodable
from harness.props import ruledrv


def run(rep, tier, seed):
    a = tlc.model_check_sharded("MC_Schema", "MC_Schema_c06.cfg")
    rep.add_tlc(a, "A:MC_Schema_c06")
    if not a["ok"]:
        raise tlc.MachineryError("leg A: MC_Schema_c06 violated on the shipped specification\n" + a["out"][-2500:])
    rng = random.Random(seed + 6)
    events, recipes = [], {}
    nschemas = 350 if tier == "quick" else 12000
    for s in range(nschemas):
        doc = gen.document(rng, depth=rng.choice([2, 3, 3]), strish=0.7)
        n = rng.choice([0, 1, 2, 2, 3, 3, 4, 4, 5, 6])
        rrs = []
        for _ in range(n):
            if rrs and rng.random() < 0.15:
                rrs.append(rng.choice(rrs))              # identical rule twice
            else:
                rrs.append(ruledrv.rule_recipe(rng, doc, maxlen=3))
        try:
            base = ruledrv.validate_event(len(events) + 1, rrs, doc)
        except Unencodable:
            rep.skipped_unencodable += 1
            continue
        except (TypeError, ValueError):
            continue
        events.append(base)
        recipes[base["id"]] = {"op": "validate", "rules": [ruledrv.lit_rule(r) for r in rrs], "doc": to_lit(doc)}
        rep.note_case(repr((rrs, doc)), nontrivial=base["ntested"] > 0)
        idx = list(range(1, n + 1))
        if n <= 4:
            perms = [p for p in itertools.permutations(idx)][1:]
            if tier == "quick" and len(perms) > 6:
                perms = rng.sample(perms, 6)
        else:
            perms = [tuple(rng.sample(idx, n)) for _ in range(4 if tier == "quick" else 10)]
        for p in perms:
            prr = [rrs[j - 1] for j in p]
            e = ruledrv.validate_event(len(events) + 1, prr, doc, perm=list(p), base=base)
            events.append(e)
            recipes[e["id"]] = {"op": "validate", "rules": [ruledrv.lit_rule(r) for r in prr], "doc": to_lit(doc),
                                "perm": list(p), "base_rules": [ruledrv.lit_rule(r) for r in rrs]}
            rep.note_case(repr((prr, doc)), nontrivial=e["ntested"] > 0)
    ruledrv.judge(rep, events, recipes, ruledrv.default_key)
    for e in events[:: max(1, len(events) // 2)][:2]:
        rep.sample({"src": recipes[e["id"]], "valid": e["valid"], "nfail": e["nfail"], "ntested": e["ntested"], "order": e["order"]})
    rep.rule = (f"leg B: {nschemas} seeded cast-free schemas of 0..6 rules (duplicates, equal path lengths) x all (<= 4 rules) or "
                "sampled permutations; observing is_valid, num_failures, num_rules_tested, per-rule verdicts and failures, "
                "Schema.rules order, report text; non-trivial = at least one rule tested")
    rep.extra["events"] = len(events)


replay = ruledrv.replay
