"""C20 - documentation tree is structurally faithful; its HTML well-formed and escaped.
Leg A: MC_Tree (the HTML stack machine accepts exactly the balanced tag sequences; laws of "required").
Leg B: seeded prefix-closed schemas over string / integer keys and bare map / list parts, with type / length /
       membership / allowed-keys / required-keys conditions in and-combinations of every order (and some
       or-combinations), doc blocks with HTML metacharacters and back-ticks; to_tree(flat / nested, every sub-tree root)
       and write_tree_html(with / without anchor root) are observed; TLC judges the structure of the flat tree against
       the rule terms (Tree.tla) and the tag trace of the HTML with the stack machine."""
import html
import random
import re

from harness import gen, tlc
from harness.common import to_lit
from harness.encode import enc_val, enc_rule, Unencodable, V
from harness.props.c01 import outcome_of

KEYS = ["a", "b", "x<y", "k&r", "q\"t", "c d", 1, 2, "0", "", 0.0, 2.0, 0, "A", " a", "value", "ab", 1.5]
TEXTS = ["plain text", "a < b & c > d", "use `code` here", "`x<y` and \"quotes\"", "it's <b>bold</b>", "tick ` alone",
         "5 > 3 && 2 < 4", "&amp; already", "<script>alert(1)</script>", "`a` then `b&c`"]


def cond_for(rng, kind, child_keys):
    """and-combination (random order) of always-applicable conditions; sometimes an or-combination"""
    from valida import Value

    leaves = []
    t = {"map": dict, "list": list, "int": int, "str": str}[kind]
    if rng.random() < 0.8:
        leaves.append(Value.dtype.equal_to(t) if rng.random() < 0.7 else Value.is_instance(t))
    if rng.random() < 0.08:
        # a type-like condition on a type that has no name in the library's table (tuple, NoneType), first or not
        extra = Value.dtype.equal_to(rng.choice([tuple, type(None)])) if rng.random() < 0.6 else Value.dtype.in_([tuple, int])
        leaves.insert(rng.choice([0, len(leaves)]), extra)
    if kind in ("list", "str") and rng.random() < 0.4:
        leaves.append(Value.length.equal_to(rng.randint(0, 3)) if rng.random() < 0.5 else Value.length.in_([1, 2]))
    if kind in ("int", "str") and rng.random() < 0.4:
        leaves.append(Value.in_([1, 2, 3] if kind == "int" else ["a", "x<y"]))
    req = []
    if kind == "map":
        ks = list(child_keys) + [k for k in ["extra", "z&z", 7] if rng.random() < 0.3]
        rng.shuffle(ks)
        if ks and rng.random() < 0.8:
            leaves.append(Value.allowed_keys(*ks))
        req = [k for k in ks if rng.random() < 0.4]
        if req and rng.random() < 0.85:
            if len(req) >= 2 and rng.random() < 0.4:
                # several required_keys (and allowed_keys) conditions in one and-combination
                cut = rng.randint(1, len(req) - 1)
                leaves.append(Value.required_keys(*req[:cut]))
                leaves.append(Value.required_keys(*req[cut:]))
                if rng.random() < 0.5:
                    leaves.append(Value.allowed_keys(*ks))
            else:
                leaves.append(Value.required_keys(*req))
    if leaves and rng.random() < 0.12:
        from valida import Value as _V
        twin = rng.choice([_V.in_([1, 2]), _V.is_instance(t), _V.in_([1, 2])])
        leaves += [twin, rng.choice([twin, _V.in_([1, 2]), _V.is_instance(t)])]      # equal type-like conditions, twice
    if not leaves:
        leaves.append(Value.truthy())
    rng.shuffle(leaves)
    c = leaves[0]
    for l in leaves[1:]:
        c = (c & l) if rng.random() < 0.5 else (l & c)
    if rng.random() < 0.12:
        c = c | Value.equal_to(None)          # not always applicable any more
    return c


def make_doc(rng):
    r = rng.random()
    if r < 0.3:
        return None
    return {"description": [rng.choice(TEXTS) for _ in range(rng.randint(0, 2))],
            "examples": [rng.choice(TEXTS) for _ in range(rng.randint(0, 2))]}


def make_schema(rng):
    """prefix-closed schema: list of (path parts as python parts, kind)"""
    import valida
    from valida.datapath import MapValue, ListValue

    nodes = []
    deep = rng.random() < 0.08           # now and then a narrow tree 6-9 levels deep (headings past h6, long paths)
    maxdepth = rng.choice([6, 7, 9]) if deep else 3

    def grow(parts, kind, depth):
        child_keys = []
        children = []
        if deep and depth < maxdepth:
            k = rng.choice(KEYS[:3] + ["lvl%d" % depth])
            if kind == "map":
                child_keys.append(k)
                children.append((parts + [k], rng.choice(["map", "map", "list"]) if depth + 1 < maxdepth else "int"))
            elif kind == "list":
                children.append((parts + [ListValue()], "map" if depth + 1 < maxdepth else "str"))
        elif kind == "map" and depth < 3:
            if rng.random() < 0.25:
                children.append((parts + [MapValue()], rng.choice(["int", "str", "map", "list"])))
            else:
                ks = rng.sample(KEYS, rng.randint(0, 3))
                for k in ks:
                    child_keys.append(k)
                    children.append((parts + [k], rng.choice(["int", "str", "map", "list", "int"])))
        if not deep and kind == "list" and depth < 3 and rng.random() < 0.7:
            children.append((parts + [ListValue()], rng.choice(["int", "str", "map"])))
        nodes.append((parts, kind, child_keys))
        for p, k in children:
            if len(nodes) < (12 if deep else 8):
                grow(p, k, depth + 1)

    grow([], rng.choice(["map", "map", "list"]), 0)
    rules = []
    docspecs = {}
    from harness.props import grammardrv as gd
    import copy as _copy
    for parts, kind, child_keys in nodes:
        cond = cond_for(rng, kind, child_keys)
        cj_out, cj = outcome_of(lambda: cond.to_json_like())      # (types without a name cannot be written as specs)
        if cj is not None and rng.random() < 0.35:
            # the rule comes from a SPEC with a doc block in one of the accepted shapes: the tree shows the block as
            # Rule.from_spec normalises it (Grammar.tla NormDoc)
            shape = _copy.deepcopy(rng.choice(gd.DOC_SHAPES))
            pspec = [{"type": "map_value"} if isinstance(x, MapValue) else {"type": "list_value"} if isinstance(x, ListValue) else x
                     for x in parts]
            r = valida.Rule.from_spec({"path": pspec, "condition": cj, "doc": _copy.deepcopy(shape)})
            docspecs[id(r)] = shape
        else:
            r = valida.Rule(path=valida.DataPath(*parts), condition=cond, doc=make_doc(rng))
        rules.append(r)
    if rng.random() < 0.1:
        # the rule paths as objects of a user's subclass of DataPath that adds nothing: paths all the same
        sub = type("LabelledPath", (valida.DataPath,), {})
        for r in rules:
            r.path.__class__ = sub
    rng.shuffle(rules)
    sch = valida.Schema(rules)
    sch._verif_docspecs = docspecs
    return sch


# ------------------------------------------------------------------ observations
def tree_event(i, schema, from_idx):
    rules = schema.rules
    e = {"id": i, "op": "tree", "rules": [enc_rule(r) for r in rules], "from": from_idx, "outcome": "", "nodes": [],
         "nested_same": True, "evs": [], "texts_ok": True, "escaped_ok": True, "token_ok": True, "exc": "", "docspecs": []}
    ds = getattr(schema, "_verif_docspecs", {})
    e["docspecs"] = [{"has": id(r) in ds, "spec": enc_val(ds.get(id(r))), "parsed": enc_val(r.doc)} for r in rules]
    fp = list(rules[from_idx - 1].path.parts) if from_idx else None
    out, flat = outcome_of(lambda: schema.to_tree(nested=False, from_path=fp))
    e["outcome"] = out
    if flat is None:
        e["exc"] = out
        return e, None
    nodes = []
    for it in flat:
        ri = 0
        for j, r in enumerate(rules, 1):
            if it.get("condition") is r.condition:
                ri = j
        pth = it.get("path", ())
        last = pth[-1] if len(pth) else None
        key = enc_val(last) if isinstance(last, (str, int)) and not isinstance(last, bool) else V("none")
        par = it["parent"]
        import valida.datapath as _dp
        nodes.append({"ri": ri, "parent": par, "plen": len(it["path_str"]), "key": key,
                      "ntype": len(it.get("type") or []), "nkeytype": len(it.get("key_type") or []),
                      "path": [{"prim": not isinstance(x, _dp.ContainerValue),
                                "v": enc_val(x) if not isinstance(x, _dp.ContainerValue) else V("none")} for x in pth],
                      "has_required": "required" in it, "required": bool(it.get("required")),
                      "pstr_prefix_ok": par < 0 or tuple(flat[par]["path_str"]) == tuple(it["path_str"][:-1]),
                      "cond_is_rule": ri > 0 and it.get("condition") is rules[ri - 1].condition,
                      "doc_is_rule": ri > 0 and (it.get("doc") is rules[ri - 1].doc or it.get("doc") == rules[ri - 1].doc)})
    e["nodes"] = nodes
    out2, nested = outcome_of(lambda: schema.to_tree(nested=True, from_path=fp))
    if nested is None:
        e["outcome"] = out2
        e["exc"] = out2
        return e, None

    def flatten(ns):
        out = []
        for n in ns:
            out.append(tuple(n["path_str"]))
            out += flatten(n.get("children", []))
        return out

    e["nested_same"] = sorted(flatten(nested), key=repr) == sorted((tuple(it["path_str"]) for it in flat), key=repr)
    return e, nested


ENT = re.compile(r"&(amp|lt|gt|quot|#x27|#39);")


def tokenise(s):
    """strict tokeniser: (ok, events, texts, attr values)"""
    evs, texts, attrs = [], [], []
    i, n = 0, len(s)
    while i < n:
        if s[i] == "<":
            j = s.find(">", i)
            if j < 0:
                return False, evs, texts, attrs
            body = s[i + 1:j]
            if body.startswith("/"):
                tag = body[1:]
                if not re.fullmatch(r"[a-zA-Z][a-zA-Z0-9]*", tag):
                    return False, evs, texts, attrs
                evs.append({"t": "close", "tag": tag})
            else:
                m = re.fullmatch(r"([a-zA-Z][a-zA-Z0-9]*)((?:\s+[a-zA-Z_:][-a-zA-Z0-9_:.]*(?:=(?:\"[^\"<>]*\"|'[^'<>]*'))?)*)\s*/?", body)
                if not m:
                    return False, evs, texts, attrs
                evs.append({"t": "open", "tag": m.group(1)})
                for a in re.finditer(r"[a-zA-Z_:][-a-zA-Z0-9_:.]*=(?:\"([^\"<>]*)\"|'([^'<>]*)')", m.group(2)):
                    attrs.append(a.group(1) if a.group(1) is not None else a.group(2))
                if body.rstrip().endswith("/"):
                    evs.append({"t": "close", "tag": m.group(1)})     # self-closing element
            i = j + 1
        else:
            j = s.find("<", i)
            j = n if j < 0 else j
            t = s[i:j]
            if ">" in t:
                return False, evs, texts, attrs
            texts.append(t)
            i = j
    for t in texts + attrs:
        if "&" in ENT.sub("", t):
            return False, evs, texts, attrs
    return True, evs, texts, attrs


def supplied_texts(nested):
    """(text, visible) pieces of schema-supplied text of the nested tree, mirroring which nodes are rendered"""
    out = []

    def walk(ns):
        for n in ns:
            if n.get("type_info_in_parent") and not n.get("children"):
                continue
            for p in n.get("path", ()):
                if isinstance(p, (str, int)):
                    out.append(str(p))
            out.append(str(n.get("condition")))
            d = n.get("doc")
            if d:
                for para in d["description"] + d["examples"]:
                    out.append(para)
            walk(n.get("children", []))

    walk(nested)
    return out


def html_event(i, nested, anchor, level=1, show_root=True):
    from valida.schema import write_tree_html

    e = {"id": i, "op": "html", "rules": [], "from": 0, "outcome": "", "nodes": [], "nested_same": True, "evs": [],
         "texts_ok": True, "escaped_ok": True, "token_ok": True, "exc": "", "docspecs": []}
    out, text = outcome_of(lambda: write_tree_html(nested, anchor_root=anchor, heading_start_level=level, show_root_heading=show_root))
    e["outcome"] = out
    if text is None:
        e["exc"] = out
        return e
    ok, evs, texts, attrs = tokenise(text)
    e["token_ok"] = ok
    e["evs"] = evs
    shown = html.unescape(" ".join(texts)) + " " + html.unescape(" ".join(attrs))
    shown_nocode = shown
    for s in supplied_texts(nested):
        pieces = [p for p in s.split("`")] if "`" in s else [s]
        if not all(p.strip() in shown_nocode for p in pieces):
            e["texts_ok"] = False
        if html.escape(s) != s and "`" not in s and s in text:
            e["escaped_ok"] = False
    return e


def run(rep, tier, seed):
    a = tlc.model_check("MC_Tree", "MC_Tree.cfg")
    rep.add_tlc(a, "A:MC_Tree")
    if not a["ok"]:
        raise tlc.MachineryError("leg A: MC_Tree violated on the shipped specification\n" + a["out"][-2500:])
    rng = random.Random(seed + 20)
    events, recipes = [], {}
    for s in range(1200 if tier == "quick" else 15000):
        try:
            schema = make_schema(rng)
            roots = [0] + list(range(1, len(schema.rules) + 1))
            if tier == "quick" and len(roots) > 3:
                roots = [0] + rng.sample(roots[1:], 2)
            for fi in roots:
                e, nested = tree_event(len(events) + 1, schema, fi)
                events.append(e)
                recipes[e["id"]] = {"schema": repr(schema.rules)[:4000], "from": fi}
                rep.note_case(repr(schema.rules) + str(fi), nontrivial=len(e["nodes"]) > 1)
                if nested is not None:
                    for anchor in ([None, "anchor"] if fi == 0 else [rng.choice([None, "anchor"])]):
                        level, show_root = rng.choice([1, 1, 1, 2, 3, 5]), rng.random() < 0.8
                        h = html_event(len(events) + 1, nested, anchor, level, show_root)
                        events.append(h)
                        recipes[h["id"]] = {"schema": repr(schema.rules)[:4000], "from": fi, "anchor": anchor, "level": level,
                                            "show_root": show_root}
                        rep.note_case(repr(schema.rules) + str(fi) + str(anchor) + "html", nontrivial=len(h["evs"]) > 4)
        except Unencodable:
            rep.skipped_unencodable += 1
    res = tlc.accept("Trace_Tree", "Trace_Tree.cfg", events)
    rep.add_tlc(res, "B:Trace_Tree")
    rep.traces += len(events)
    byid = {e["id"]: e for e in events}
    for m in res["mismatches"]:
        e = byid[m["id"]]
        rep.reject({"clause": m["clause"], "op": e["op"], "outcome": e["outcome"]}, {"recipe": recipes[m["id"]], "event": e})
    for e in events[:2]:
        rep.sample({"op": e["op"], "src": recipes[e["id"]], "outcome": e["outcome"], "nodes": e["nodes"][:4], "evs": e["evs"][:6]})
    rep.rule = ("seeded prefix-closed schemas (<= 8 rules, depth <= 3; string keys incl. HTML metacharacters, integer keys, "
                "bare map / list parts; and-combinations of type / length / membership / allowed_keys / required_keys "
                "conditions in random order, 12% with an or-combination; doc blocks with metacharacters and back-ticks), "
                "to_tree flat and nested for the whole tree and sub-tree roots, write_tree_html with and without anchor "
                "root; non-trivial = more than one node / more than two elements")
    rep.extra["events"] = len(events)


def replay(rep, case):
    e = case["case"]["event"]
    print("recorded", e["op"], "outcome", e["outcome"], e.get("exc"))
    print(case["case"]["recipe"])
    res = tlc.accept("Trace_Tree", "Trace_Tree.cfg", [dict(e, id=1)], shards=1)
    rep.add_tlc(res, "B:Trace_Tree(replay of the recorded observation)")
    rep.traces += 1
    for m in res["mismatches"]:
        rep.reject({"clause": m["clause"], "op": e["op"], "outcome": e["outcome"]}, case["case"])
    rep.sample({"replayed": e["op"]})
