"""C19 - malformed specs are rejected with spec errors, never internal ones.
Leg A: MC_Malformed (the parser model is total on a bounded universe of JSON-like structures over valid, near-miss
       and attribute-name tokens, and every injected error class is rejected by the model: no class is vacuous).
Leg B: (i) one definite error of each listed class injected into well-formed specs: must be rejected, with an
       allowed exception type; "definite" is decided by Grammar.tla, not by the generator's label;
       (ii) arbitrary structural mutations: accepted, or rejected with an allowed exception type."""
import copy
import random

from harness import gen, tlc
from harness.common import to_lit
from harness.encode import Unencodable
from harness.props import grammardrv as gd, c10

ATTRS = ["filter", "flatten", "test", "test_all", "from_spec", "is_like", "to_json_like", "from_json_like", "callable",
         "js_like_label", "is_null", "is_key_like", "__class__", "__init__", "__eq__", "length", "dtype", "simplify",
         "to_part_specs", "parts", "get_data", "is_concrete", "from_str", "resolve_implicit_types", "copy", "nope", "foo"]


def near_miss(rng, name, valid):
    """a name one slip away from a valid one (trailing / leading underscore or blank, a doubled or dropped letter,
    '-' for '_', a plural) that is NOT itself valid (compared lower-cased, as the parsers do)"""
    for _ in range(20):
        j = rng.randrange(len(name))
        cand = rng.choice([name + "_", name + "__", "_" + name, name + " ", " " + name, name[:j] + name[j] + name[j:],
                           name[:j] + name[j + 1:], name.replace("_", "-"), name + "s", name + ".", name.replace("_", " "),
                           name.replace("_", ""), name + "_" + name[-1]])
        if cand and cand.lower() not in valid and cand.lower().strip(".") not in valid:
            return cand
    return name + "_x"


def valid_names():
    fns = set(f.lower() for f in gen.ALLFNS) | {a for v in gd.ALIASES.values() for a in v}
    return {"datum": {"value", "key", "index"}, "pre": {"length", "len", "dtype", "type"}, "fn": fns,
            "suffix": {"length", "len", "dtype", "type", "map_keys", "map_values", "first", "last", "single", "all", "any",
                       "map_items", "list_items"},
            "ptype": {"map_value", "list_value", "map_or_list_value"}, "parg": {"type", "key", "index", "value", "condition", "label"},
            "cast": {"str", "bool", "int"}, "tname": {"int", "float", "str", "list", "dict", "bool", "map", "none", "path", "tuple"}}


def inject(rng):
    """(op, spec, class label)"""
    k = rng.randrange(34)
    if k >= 26:
        V = valid_names()
        if k == 26:
            nm = near_miss(rng, rng.choice(sorted(V["fn"])), V["fn"] | V["pre"])
            return "parse_cond", {rng.choice(["value", "key", "value.length", "value.dtype"]) + "." + nm: rng.choice([1, None, [1]])}, "near-miss callable name"
        if k == 27:
            nm = near_miss(rng, rng.choice(sorted(V["datum"])), V["datum"] | {"path"})
            return "parse_cond", {nm + ".equal_to": 1}, "near-miss datum kind"
        if k == 28:
            nm = near_miss(rng, rng.choice(sorted(V["pre"])), V["pre"] | V["fn"])
            return "parse_cond", {"value." + nm + ".equal_to": 1}, "near-miss pre-processor"
        if k == 29:
            nm = near_miss(rng, rng.choice(sorted(V["suffix"])), V["suffix"])
            return "parse_path", {"path." + nm: ["a"]}, "near-miss path suffix"
        if k == 30:
            nm = near_miss(rng, rng.choice(sorted(V["ptype"])), V["ptype"])
            return "parse_part", {"type": nm}, "near-miss part type"
        if k == 31:
            nm = near_miss(rng, rng.choice(sorted(V["parg"] - {"type"})), V["parg"] | V["datum"])
            return "parse_part", {"type": rng.choice(["map_value", "list_value", "map_or_list_value"]), nm: {"value.eq": 1}}, "near-miss part argument"
        if k == 32:
            nm = near_miss(rng, rng.choice(sorted(V["cast"])), V["cast"] | V["tname"])
            return "parse_rule", {"path": ["a"], "condition": {"value.eq": 1}, "cast": rng.choice([{"str": nm}, {nm: "int"}])}, "near-miss cast type"
        nm = near_miss(rng, rng.choice(["int", "float", "str", "list", "dict", "bool"]), V["tname"])
        return "parse_cond", {rng.choice(["value.dtype.equal_to", "value.type.eq"]): nm} if rng.random() < 0.5 else \
            {rng.choice(["value.dtype.in", "value.is_instance"]): ["int", nm]}, "near-miss type name"
    leaf = lambda: gd.spell_leaf(rng, gd.spec_leaf_recipe(rng, [("value", "none")]))   # noqa: E731
    if k == 0:
        return "parse_cond", {rng.choice(["valuex", "foo", "values", "val", "path"]) + ".equal_to": 1}, "unknown datum kind"
    if k == 1:
        return "parse_cond", {"value." + rng.choice(ATTRS + ["len_", "lengthh"]) + ".equal_to": 1}, "unknown pre-processor"
    if k == 2:
        return "parse_cond", {rng.choice(["value", "key", "index", "value.length", "key.dtype"]) + "." + rng.choice(ATTRS): rng.choice([None, 1, [1], {}])}, "unknown callable"
    if k == 3:
        return "parse_cond", {rng.choice(["value.dtype.equal_to", "value.type.in", "key.dtype.eq"]): rng.choice(["integer", "strr", ["int", "nope"], 3, None])}, "unknown type name"
    if k == 4:
        return "parse_cond", {"value.is_instance": rng.choice([["strr"], ["int", 3], "int", {"a": 1}])}, "unknown type name / shape"
    if k == 5:
        return "parse_path", {"path." + rng.choice(ATTRS + ["firstt", "typee"]): ["a"]}, "unknown path suffix"
    if k == 6:
        return "parse_part", {"type": rng.choice(["set_value", "map", "MAP_VALUE", 3, None])}, "unknown part type"
    if k == 7:
        sp = {"type": rng.choice(["map_value", "list_value", "map_or_list_value"])}
        sp[rng.choice(["foo", "Value.eq", "keys", "cond", "valuex.eq", "KEY", "lable"])] = 1
        return "parse_part", sp, "unknown part argument"
    if k == 8:
        op = rng.choice(["and", "or", "xor"])
        K, X, Vl = {"key.equal_to": "a"}, {"index.equal_to": 0}, {"value.greater_than": 1}
        return "parse_part", rng.choice([{"type": "map_value", "index": {"index.eq": 0}}, {"type": "list_value", "key": {"key.eq": "a"}},
                                         {"type": "list_value", "key.eq": "a"}, {"type": "map_value", "index.eq": 0},
                                         # a TREE in a slot must be of the slot's kind throughout, wherever the stranger sits
                                         {"type": "map_value", "key": {op: [K, Vl]}}, {"type": "map_value", "key": {op: [Vl, K]}},
                                         {"type": "list_value", "index": {op: [X, Vl]}}, {"type": "map_or_list_value", "key": {op: [K, {op: [K, Vl]}]}},
                                         {"type": "map_value", "value": {op: [Vl, K]}}, {"type": "list_value", "value": {op: [Vl, {op: [Vl, X]}]}},
                                         {"type": "map_or_list_value", "index": {op: [X, K]}}]), "part argument of the wrong kind"
    if k == 9:
        return "parse_rule", {"path": ["a"], "condition": {"value.eq": 1}, "cast": rng.choice([{"str": "float"}, {"foo": "int"}, {"int": "str"}, {"str": "STR"}, {"bool": "int"}])}, "unknown cast type"
    if k == 10:
        return "parse_cond", {rng.choice(["value.in_range", "value.not_in_range"]): rng.choice([[1], [1, 2, 3], {"lower": 1}, {"lower": 1, "upper": 2, "x": 3}, []])}, "wrong arity"
    if k == 11:
        return "parse_cond", {"value.equal_to_approx": rng.choice([[], [1, 2, 3], {"tolerance": 1}, {"value": 1, "tol": 2}])}, "wrong arity"
    if k == 12:
        return "parse_cond", {rng.choice(["value.keys_contain_N_of", "value.keys_contain_at_least_n_of"]): rng.choice([[1], {"N": 1}, [1, ["a"], 2], {"n": 1, "keys": []}])}, "wrong arity"
    if k == 13:
        return "parse_cond", {rng.choice(["value.allowed_keys", "value.keys_contain_any_of", "value.is_instance"]): rng.choice([{"a": 1}, 3, "ab", None])}, "wrong argument shape"
    if k == 14:
        return "parse_cond", {"value.items_contain": rng.choice([["a"], 3, "ab", None])}, "wrong argument shape"
    if k == 15:
        return "parse_cond", {rng.choice(["value.in_range", "value.equal_to_approx", "value.keys_contain_N_of"]): rng.choice([3, "ab", None])}, "wrong argument shape"
    if k == 16:
        return "parse_cond", {rng.choice(["and", "or", "xor"]): rng.choice([{"value.eq": 1}, 3, "ab"])}, "wrong argument shape"
    if k == 17:
        a, b = leaf(), {"value.truthy": None}
        a.update(b)
        return "parse_cond", a, "several keys"
    if k == 18:
        if rng.random() < 0.5:
            a, b = rng.choice([("length", "length"), ("type", "dtype"), ("len", "length"), ("map_keys", "map_keys"), ("first", "first"),
                               ("dtype", "type"), ("last", "first"), ("length", "map_keys"), ("single", "single")])
            return "parse_path", {"path." + a + "." + b: ["a"]}, "two suffixes of one kind"
        return "parse_path", {"path": ["a"], "path.length": ["b"]}, "several keys"
    if k == 19:
        sp = {"path": ["a"], "condition": leaf()}
        del sp[rng.choice(["path", "condition"])]
        return "parse_rule", sp, "missing rule field"
    if k == 20:
        return "parse_cond", rng.choice([[{"value.eq": 1}], "value.eq", 3, 1.5, True]), "spec of the wrong type"
    if k == 21:
        return "parse_cond", {rng.choice(["value", "value.", ".eq", "value.length", "value.len", "value.a.b.c", "value.length.eq.x", ""]): 1}, "malformed key"
    if k == 22:
        return "parse_path", rng.choice([{"paths": ["a"]}, {"a.path": ["a"]}, {"path.length.first.all": ["a"]}, ["a"], "a/b", {"path.first": ["a"]}, {"path.type.length": [{"type": "map_value"}]}]), "malformed path spec"
    if k == 23:
        return "parse_parts", rng.choice([[None], [["a"]], [{"type": "map_value", "condition": {"nope.eq": 1}}], ["a", {"type": "x"}]]), "malformed part list"
    if k == 24:
        doc = rng.choice([["para", 2], [None], {"description": 3}, {"examples": [None, "x"]}, {"description": {"a": 1}}, 5, True,
                          {"description": ["ok"], "examples": "not a list"}, [["nested"]], {"description": [1.5]}, {1: "x"}])
        return "parse_rule", {"path": ["a"], "condition": {"value.truthy": None}, "doc": doc}, "malformed doc block"
    return "parse_schema", rng.choice([[{"path": ["a"], "condition": {"value.eq": 1}, "doc": [3]}], [{"path": ["a"]}], [5], ["rule"],
                                       [{"path": ["a"], "condition": {"value.eq": 1}, "cast": ["str"]}]]), "malformed rule in a schema"


def mutate(rng, x, depth=0):
    """one random structural mutation somewhere in x"""
    junk = [None, 0, 1, -1, 1.5, True, "", "a", "path", "value.eq", [], {}, [1], {"a": 1}, {"path": ["a"]}, {1: 2}, [[]], int]
    if isinstance(x, dict) and x and rng.random() < 0.7:
        k = rng.choice(list(x.keys()))
        r = rng.random()
        y = dict(x)
        if r < 0.2:
            del y[k]
        elif r < 0.4:
            y[rng.choice(junk[:8] if True else junk)] = copy.deepcopy(x[k]) if rng.random() < 0.5 else rng.choice(junk)
        elif r < 0.55:
            v = y.pop(k)
            nk = rng.choice([1, None, 2.5, True, (k + "x") if isinstance(k, str) else "k", k.upper() if isinstance(k, str) else "K"])
            y[nk] = v
        else:
            y[k] = mutate(rng, x[k], depth + 1)
        return y
    if isinstance(x, list) and x and rng.random() < 0.7:
        i = rng.randrange(len(x))
        y = list(x)
        r = rng.random()
        if r < 0.2:
            del y[i]
        elif r < 0.35:
            y.insert(i, copy.deepcopy(x[i]))
        elif r < 0.5:
            y.insert(i, rng.choice(junk))
        else:
            y[i] = mutate(rng, x[i], depth + 1)
        return y
    return rng.choice(junk)


def hashable_keys(x):
    try:
        if isinstance(x, dict):
            return all(hashable_keys(v) for v in x.values())
        if isinstance(x, list):
            return all(hashable_keys(v) for v in x)
        return True
    except TypeError:
        return False


def run(rep, tier, seed):
    gd.pollute()        # same-named custom callables have been used in this process before any spec is parsed
    a = tlc.model_check_sharded("MC_Malformed", "MC_Malformed.cfg", nshards=8)
    rep.add_tlc(a, "A:MC_Malformed")
    if not a["ok"]:
        raise tlc.MachineryError("leg A: MC_Malformed violated on the shipped specification\n" + a["out"][-2500:])
    rng = random.Random(seed + 19)
    events, recipes = [], {}
    n = 1 if tier == "quick" else 30
    for _ in range(5000 * n):
        op, spec, label = inject(rng)
        if op == "parse_part" and isinstance(spec, dict) and rng.random() < 0.5:
            # the malformed part spec inside a data path that is a condition ARGUMENT (the argument itself, an item of
            # a list argument, a bound of a range): the condition spec is malformed all the same
            pa = {rng.choice(["path", "path", "path.first", "path.length"]): rng.choice([[spec], ["a", spec], [spec, 0]])}
            op, label = "parse_cond", label + " (in a data-path argument)"
            spec = rng.choice([{"value.equal_to": pa}, {"value.in": [1, pa]}, {"value.in_range": {"lower": pa, "upper": 9}},
                               {"and": [{"value.truthy": None}, {"value.not_equal_to": pa}]}])
        try:
            lit = to_lit(spec)
            e = gd.parse_event(len(events) + 1, op, spec)
        except Unencodable:
            rep.skipped_unencodable += 1
            continue
        events.append(e)
        recipes[e["id"]] = {"op": op, "spec": lit, "injected": label}
        rep.note_case(repr(lit) + op)
    # YAML documents whose TOP LEVEL is not the mapping {"rules": [...]}: through the text and the file entry points
    import os
    import tempfile
    import valida
    for text, loaded in [("", None), ("# nothing here\n", None), ("- path: [a]\n  condition: {value.eq: 1}\n", 0), ("5\n", 5),
                         ("rules\n", "rules"), ("rule: []\n", 0), ("rules: 5\n", 5), ("rules: {a: 1}\n", {"a": 1}),
                         ("rules:\n", None), ("[]\n", 0), ("rules: [5]\n", [5]), ("Rules: []\n", 0)]:
        for route in ("yaml", "yaml_file"):
            if route == "yaml":
                parser = lambda text=text: valida.Schema.from_yaml(text)      # noqa: E731
                path = None
            else:
                fd, path = tempfile.mkstemp(suffix=".yaml", dir=os.path.join(tlc.VERIF, "out"))
                os.write(fd, text.encode())
                os.close(fd)
                parser = lambda path=path: valida.Schema.from_yaml_file(path)   # noqa: E731
            try:
                # the specification judges the structure under "rules" (anything that is not a list of rule mappings: err)
                e = gd.parse_event(len(events) + 1, "parse_schema", None, parser=parser, spec_for_tlc=loaded)
            finally:
                if path:
                    os.remove(path)
            events.append(e)
            recipes[e["id"]] = {"op": "parse_schema", "spec": to_lit(loaded), "injected": "YAML top level is not {rules: [...]}",
                                "route": route, "text": text}
            rep.note_case(text + route)
    # structural fuzz of well-formed specs
    base_events, base_rec = [], {}
    c10.make_events(rep, rng, 1000 * n, base_events, base_rec, with_dsl=False)
    from harness.props import c16
    c16.cond_specs(rep, rng, 400 * n, base_events, base_rec)
    rep.evaluations -= len(base_events)
    for be in base_events:
        r = base_rec[be["id"]]
        if r["op"] == "from_str":
            continue
        for _k in range(2):
            spec = mutate(rng, gd.from_lit(r["spec"]))
            try:
                lit = to_lit(spec)
                e = gd.parse_event(len(events) + 1, r["op"], spec)
            except (Unencodable, TypeError):
                rep.skipped_unencodable += 1
                continue
            events.append(e)
            recipes[e["id"]] = {"op": r["op"], "spec": lit, "injected": "structural mutation"}
            rep.note_case(repr(lit) + r["op"])

    def keyf(m, e, r):
        return {"clause": m["clause"], "op": e["op"], "outcome": e["outcome"], "exc": e["exc"],
                "class": (r or {}).get("injected")}

    gd.judge(rep, events, recipes, "C19", keyf)
    for e in events[:: max(1, len(events) // 3)][:3]:
        rep.sample({"src": recipes[e["id"]], "outcome": e["outcome"]})
    rep.rule = ("leg B: 24 classes of injected definite errors (unknown datum kind / pre-processor / callable incl. names of "
                "other attributes / type name / path suffix / part type / part argument / cast type, wrong arity, wrong "
                "argument shape, several keys, missing rule field, malformed key) + 2 random structural mutations of each "
                "well-formed spec of the C09/C10/C16 generators; the grammar model decides which are definite errors")
    rep.extra["events"] = len(events)


def replay(rep, case):
    gd.replay(rep, case, "C19")
