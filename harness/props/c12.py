"""C12 - serialised data paths rebuild to an equivalent path, or serialisation refuses.
Leg A: MC_GrammarPath (full part specs parse back to the part; JSON).  Leg B: seeded paths (primitive parts, parts with
non-equality key/index conditions, value conditions, combined conditions, labels; built through the API or from specs)
serialised by the real to_part_specs, pushed through JSON text, rebuilt; TLC parses the emitted specs with Grammar.tla and
compares what both paths select (with concrete paths) on the probe documents."""
import random

from harness import gen, tlc
from harness.common import to_lit, from_lit
from harness.encode import Unencodable
from harness.props import rtdrv, c10, ruledrv, grammardrv as gd


def literal_args(rparts):
    out = []

    def walk_tree(t):
        if not isinstance(t, tuple):
            return
        if t[0] == "leaf":
            for a in list(t[1]["actuals"]) + list(t[1]["akw"].values()):
                if isinstance(a, (dict, list)) and a:
                    out.append(a)
                    if isinstance(a, list):
                        out.extend(x for x in a if isinstance(x, (dict, list)))
        elif t[0] in ("and", "or", "xor"):
            walk_tree(t[1])
            walk_tree(t[2])

    for p in rparts:
        if isinstance(p, dict):
            for k in ("key", "index", "value", "cond", "lcond", "mcond"):
                walk_tree(p.get(k))
    return out[:4]


def run(rep, tier, seed):
    a = tlc.model_check_sharded("MC_GrammarPath", "MC_GrammarPath.cfg")
    rep.add_tlc(a, "A:MC_GrammarPath")
    if not a["ok"]:
        raise tlc.MachineryError("leg A: MC_GrammarPath violated on the shipped specification\n" + a["out"][-2500:])
    rng = random.Random(seed + 12)
    events, recipes = [], {}
    for _ in range(3500 if tier == "quick" else 80000):
        doc = gen.document(rng, depth=3, strish=0.7)
        via_specs = rng.random() < 0.5
        # conditions with JSON-representable, well-typed arguments (what a spec can express); the parts are
        # built through the API constructors or from spec spellings
        rparts = c10.spec_path_recipe(rng, rng.choice([1, 1, 2, 3]))
        if rng.random() < 0.5:
            rparts = [gen.prim_part(rng, doc) if isinstance(p, tuple) else p for p in rparts]
        if rng.random() < 0.1:
            # a part whose only condition compares the value with a literal mapping / list (keys that look like
            # path specs in any position), on probe documents that contain that literal
            lit = rng.choice([{"path": ["a"]}, {"b": 1, "path": ["a", 0]}, {"mode": "x", "path.length": ["a"], "z": None},
                              {"a": {"b": 1, "path": [1]}}, [{"b": 2, "path": ["a"]}, 3], {"a": 1, "b": [1, 2]}] + gen.PATHLIKE_EXTRA)
            fn = rng.choice(["equal_to", "equal_to", "not_equal_to", "in_"])
            arg = [lit, 5] if fn == "in_" else lit
            part = {"rk": rng.choice(["map", "list", "mol"]), "key": None, "index": None, "cond": None, "label": None,
                    "value": ("leaf", {"datum": "value", "pre": "none", "fn": fn, "actuals": [arg], "akw": {}})}
            rparts = [part] if rng.random() < 0.7 else [part, rng.choice([("prim", "b"), ("prim", 0)])]
        if rng.random() < 0.06:
            # a part whose condition is ONE condition object combined with itself (c ^ c selects nothing, c & c what c does)
            sub = ("leaf", gd.spec_leaf_recipe(rng, [("value", "none"), ("value", "length")]))
            part = {"rk": rng.choice(["map", "list", "mol"]), "key": None, "index": None, "cond": None, "label": None,
                    "value": (rng.choice(["xor", "xor", "and", "or"]), sub, sub)}
            rparts = [part] if rng.random() < 0.7 else [rng.choice([("prim", "a"), ("prim", 0)]), part]
        if rng.random() < 0.06:
            # a map-or-list part with list_condition / map_condition of its own (index / key leaves mixed with value leaves)
            part = c10.mol_slots_part(rng)
            rparts = [part] if rng.random() < 0.6 else [rng.choice([("prim", "a"), ("prim", 0)]), part]
        probes = [doc] + rtdrv.PROBES[:5]
        lits = literal_args(rparts)
        if lits:
            # documents that CONTAIN the literal arguments of the parts' conditions, so that a condition
            # comparing with a mapping / list literal selects something
            probes = probes[:4] + [list(lits) + [0], {"a": lits[0], "b": lits[-1], "c": 1}]
        try:
            e = rtdrv.rt_path_event(len(events) + 1, rparts, via_specs, rng, probes)
        except Unencodable:
            rep.skipped_unencodable += 1
            continue
        except (TypeError, ValueError):
            continue
        events.append(e)
        recipes[e["id"]] = {"op": "rt_path", "rparts": to_lit(rparts), "via_specs": via_specs, "doc": to_lit(doc)}
        rep.note_case(repr(recipes[e["id"]]), nontrivial=e["outcome"] == "ok")
    rtdrv.judge(rep, events, recipes)
    rep.extra["serialised"] = sum(1 for e in events if e["outcome"] == "ok")
    rep.extra["refused"] = sum(1 for e in events if e["outcome"] != "ok")
    for e in events[:: max(1, len(events) // 3)][:3]:
        rep.sample({"src": recipes[e["id"]], "outcome": e["outcome"], "js": e["js"]})
    rep.rule = ("seeded paths of 1..3 parts (document-guided API-built, or built from spec spellings); observed: "
                "to_part_specs outcome and output, JSON text identity, from_part_specs outcome, == both ways, selections "
                "with concrete paths on 6 probe documents for both paths; TLC parses the emitted specs itself and compares "
                "the selections of the two path terms; non-trivial = serialisation did not refuse")
    rep.extra["events"] = len(events)


def replay(rep, case):
    r = case["case"]["recipe"]
    rparts = [tuple(p) if isinstance(p, list) else p for p in ruledrv.unlit_rule({"rparts": r["rparts"], "cond": ["null"], "cast": None})["rparts"]]
    rng = random.Random(1)
    ev = [rtdrv.rt_path_event(1, rparts, r["via_specs"], rng, [from_lit(r["doc"])] + rtdrv.PROBES[:5])]
    res = tlc.accept("Trace_RoundTrip", "Trace_RoundTrip.cfg", ev, shards=1)
    rep.add_tlc(res, "B:Trace_RoundTrip(replay)")
    rep.traces += 1
    for m in res["mismatches"]:
        print("REPLAY mismatch:", m["clause"], ev[0]["outcome"])
        rep.reject({"clause": m["clause"], "op": "rt_path", "outcome": ev[0]["outcome"]}, {"recipe": r, "event": ev[0]})
    rep.sample({"replayed": r})
