"""C10 - path, part, rule and YAML specs build the same objects as the Python API.
Leg B/C: seeded part / path / rule / schema recipes x random spellings (long forms and dotted shorthands, labels,
suffixes in either order with aliases, delimiter-separated strings, cast and every doc shape, YAML text through
ruamel) parsed by the real parsers; TLC parses the same structure with Grammar.tla and compares projections; the parsed
object must == the API-built one."""
import io
import os
import random
import tempfile

from harness import gen, tlc
from harness.common import to_lit
from harness.encode import Unencodable
from harness.props import grammardrv as gd, ruledrv
from harness.props.c01 import outcome_of

STR_TOKENS = ["a", "b", "ab", "c", "x3", "A", "key", "a b", "", "a<b", "path", "0", "1", "2", "10", "-1", "007",
              "1_0", "+5", " 3", "1.5", "0.25", "2.0", "-0.5", "12.125", "0.0"]


def spec_part_recipe(rng, node=None):
    """part recipes whose conditions are spec-expressible"""
    rk = rng.choice(["map", "list", "mol"])
    if rng.random() < 0.15:
        # "near-primitive" parts: exactly one key / index given as a primitive and nothing else - what a bare
        # primitive is (or is NOT) coerced to: MapValue(1), MapValue(True), ListValue(0), MapOrListValue(key="a"), ...
        p = {"rk": rk, "key": None, "index": None, "value": None, "cond": None, "label": None}
        if rk == "map":
            p["key"] = ("prim", rng.choice([1, 0, 2, True, 1.5, "a", "1"]))
        elif rk == "list":
            p["index"] = ("prim", rng.choice([0, 1, 2, True]))
        else:
            which = rng.choice(["key", "index", "both", "differ"])
            if which in ("key", "both", "differ"):
                p["key"] = ("prim", rng.choice([1, "a", 0, True]))
            if which in ("index", "both"):
                p["index"] = ("prim", p["key"][1] if which == "both" and isinstance(p["key"][1], int) else rng.choice([0, 1]))
            if which == "differ":
                p["index"] = ("prim", rng.choice([2, 3]))
        return p
    p = {"rk": rk, "key": None, "index": None, "value": None, "cond": None, "label": rng.choice([None, None, None, "lab", "x y", "", 0, False])}

    def arg(kinds, prims):
        r = rng.random()
        if r < 0.35:
            return None
        if r < 0.6:
            return ("prim", rng.choice(prims))
        return gd.spec_tree_recipe(rng, depth=rng.choice([0, 0, 1]), kinds=kinds, null_p=0.0)

    if rk in ("map", "mol"):
        p["key"] = arg([("key", "none"), ("key", "length"), ("key", "dtype")], ["a", "b", 1, 1.5, 0, 2, True])
    if rk in ("list", "mol"):
        p["index"] = arg([("index", "none")], [0, 1, 2])
    p["value"] = arg([("value", "none"), ("value", "length"), ("value", "dtype")], [0, "a", 2.5])
    if rng.random() < 0.25:
        p["cond"] = gd.spec_tree_recipe(rng, depth=rng.choice([0, 1]), kinds=[("value", "none"), ("value", "dtype")], null_p=0.0)
    if rk == "mol" and rng.random() < 0.3:
        # the slots of their own of a map-or-list part (list_condition / map_condition), any condition: index (key)
        # leaves alone or mixed with value leaves
        if rng.random() < 0.7:
            p["lcond"] = gd.spec_tree_recipe(rng, depth=rng.choice([0, 1, 1]), null_p=0.0,
                                             kinds=rng.choice([[("index", "none")], [("index", "none"), ("value", "none"), ("value", "dtype")], [("value", "none")]]))
        if rng.random() < 0.7:
            p["mcond"] = gd.spec_tree_recipe(rng, depth=rng.choice([0, 1, 1]), null_p=0.0,
                                             kinds=rng.choice([[("key", "none"), ("key", "dtype")], [("key", "none"), ("value", "none"), ("value", "length")], [("value", "dtype")]]))
        p["pos"] = rng.random() < 0.5
    return p


def mol_slots_part(rng):
    """a map-or-list part recipe with at least one of its own two slots (list_condition / map_condition) given"""
    while True:
        p = spec_part_recipe(rng)
        if p["rk"] == "mol" and (p.get("lcond") is not None or p.get("mcond") is not None):
            return p


def ncomponents(p):
    return sum(1 for k in ("key", "index", "value", "cond") if p.get(k) is not None)


def spec_path_recipe(rng, n=None):
    n = rng.choice([0, 1, 2, 3]) if n is None else n
    parts = []
    for _ in range(n):
        if rng.random() < 0.55:
            parts.append(("prim", rng.choice(["a", "b", "ab", 0, 1, 2, 1.5, True])))
        else:
            parts.append(spec_part_recipe(rng))
    return parts


def spec_rule_recipe(rng):
    return {"rparts": spec_path_recipe(rng), "cond": gd.spec_tree_recipe(rng, depth=rng.choice([0, 1, 2]),
            kinds=[("value", "none"), ("value", "length"), ("value", "dtype")], null_p=0.05),
            "cast": rng.choice([None, None, "bool", "int"])}


def yaml_text(struct):
    from ruamel.yaml import YAML

    y = YAML(typ="safe")
    y.default_flow_style = None
    buf = io.StringIO()
    y.dump(struct, buf)
    return buf.getvalue()


def styled_tail(rng):
    """one more rule, hand-written in YAML block style, whose LAST node is a block scalar (literal / folded, clip /
    strip / keep): what the text means is what a YAML loader says, to the last new line"""
    style = rng.choice(["|", "|", "|-", "|+", ">", ">-"])
    body = rng.choice(["      two\n      lines\n", "      one\n", "      a\n\n      b\n", "      x  \n"])
    extra = rng.choice(["", "", "\n", "\n\n"]) if style.endswith("+") or rng.random() < 0.3 else ""
    key = rng.choice(["value.equal_to", "value.not_equal_to", "value.in"])
    if rng.random() < 0.3:
        # a plain (unquoted) scalar with a TAB inside, and a flow sequence with odd spacing: one meaning, whichever loader
        return "- path: [" + rng.choice(["zz", "a"]) + "]\n  condition:\n    " + key + ": a\tb c\n" + \
            rng.choice(["", "- path: [ q ,0 ]\n  condition: { value.truthy:   }\n"])
    return "- path: [" + rng.choice(["zz", "a", "0"]) + "]\n  condition:\n    " + key + ": " + style + "\n" + body + extra


def yaml_load(text):
    from ruamel.yaml import YAML

    return YAML(typ="safe").load(text)


def make_events(rep, rng, n, events, recipes, with_dsl=True):
    import valida
    import valida.datapath as dp

    def add(e, rec):
        events.append(e)
        recipes[e["id"]] = rec
        rep.note_case(repr(rec["spec"]) + rec["op"] + rec.get("route", ""))

    for _ in range(n):
        r = rng.random()
        try:
            if r < 0.22:
                p = spec_part_recipe(rng)
                spec = gd.spell_part(rng, p)
                lit = to_lit(spec)
                dsl = None
                if with_dsl and ncomponents(p) <= 2:
                    out, dsl = outcome_of(lambda: gen.build_part(p))
                add(gd.parse_event(len(events) + 1, "parse_part", spec, dsl=dsl), {"op": "parse_part", "spec": lit})
            elif r < 0.36:
                rp = spec_path_recipe(rng)
                spec = [gd.spell_part(rng, p) for p in rp]
                lit = to_lit(spec)
                dsl = None
                if with_dsl and all(isinstance(p, tuple) or ncomponents(p) <= 2 for p in rp):
                    out, dsl = outcome_of(lambda: dp.DataPath(*[gen.build_part(p) for p in rp]))
                add(gd.parse_event(len(events) + 1, "parse_parts", spec, dsl=dsl), {"op": "parse_parts", "spec": lit})
            elif r < 0.52:
                rp = spec_path_recipe(rng)
                concrete = all(isinstance(p, tuple) for p in rp)
                dt = rng.choice(["none", "dtype", "length", "map_keys", "map_values"])
                mt = "none" if concrete else rng.choice(["none", "first", "last", "single", "all"])
                spec = gd.spell_path(rng, rp, dt, mt)
                lit = to_lit(spec)
                dsl = None
                if with_dsl and all(isinstance(p, tuple) or ncomponents(p) <= 2 for p in rp):
                    from harness.props.pathdrv import apply_mods
                    out, dsl = outcome_of(lambda: apply_mods(dp.DataPath(*[gen.build_part(p) for p in rp]), dt, mt, "dm"))
                add(gd.parse_event(len(events) + 1, "parse_path", spec, dsl=dsl), {"op": "parse_path", "spec": lit})
            elif r < 0.64:
                delim = rng.choice(["/", "/", ".", ":", "|"])
                toks = [rng.choice(STR_TOKENS) for _ in range(rng.choice([0, 1, 2, 3, 4]))]
                toks = [t for t in toks if delim not in t]
                s = delim.join(toks)
                add(gd.parse_event(len(events) + 1, "from_str", s, delim=delim), {"op": "from_str", "spec": s, "delim": delim})
            elif r < 0.84:
                rr = spec_rule_recipe(rng)
                docspec = rng.choice(gd.DOC_SHAPES + ["__none__"])
                spec = gd.spell_rule(rng, rr, docspec if docspec == "__none__" else __import__("copy").deepcopy(docspec))
                lit = to_lit(spec)
                dsl = None
                if with_dsl and all(isinstance(p, tuple) or ncomponents(p) <= 2 for p in rr["rparts"]):
                    out, dsl = outcome_of(lambda: ruledrv.build_rule(rr))
                add(gd.parse_event(len(events) + 1, "parse_rule", spec, dsl=dsl), {"op": "parse_rule", "spec": lit})
            else:
                rrs = [spec_rule_recipe(rng) for _ in range(rng.choice([0, 1, 2, 3]))]
                specs = [gd.spell_rule(rng, rr, __import__("copy").deepcopy(rng.choice(gd.DOC_SHAPES))) for rr in rrs]
                if specs and rng.random() < 0.15:
                    # a second rule that differs from an earlier one only by an ==-twin of another type in its path
                    # (1 / 1.0 / true): another rule, however alike the two specs compare
                    tw = __import__("copy").deepcopy(rng.choice(specs))
                    pth = tw.get("path")
                    if isinstance(pth, list):
                        k = rng.choice([1, 0, 2])
                        pth2 = list(pth) + [k]
                        tw["path"] = list(pth) + [rng.choice([float(k), bool(k)] if k in (0, 1) else [float(k)])]
                        first = dict(__import__("copy").deepcopy(tw), path=pth2)
                        specs += [first, tw]
                route = rng.choice(["json_like", "yaml", "yaml_file"])
                if route == "json_like":
                    lit = to_lit(specs)
                    add(gd.parse_event(len(events) + 1, "parse_schema", specs), {"op": "parse_schema", "spec": lit, "route": route})
                else:
                    plain = [s for s in specs]
                    if not json_safe(plain):
                        continue
                    text = yaml_text({"rules": plain})
                    if rng.random() < 0.3:
                        text = rng.choice(["", "\n", "# a schema\n", "---\n"]) + ("rules:\n" if not plain else text) + styled_tail(rng)
                    loaded = yaml_load(text)["rules"]
                    if route == "yaml":
                        parser = lambda: valida.Schema.from_yaml(text)      # noqa: E731
                    else:
                        fd, path = tempfile.mkstemp(suffix=".yaml", dir=os.path.join(tlc.VERIF, "out"))
                        os.write(fd, text.encode())
                        os.close(fd)
                        parser = lambda: valida.Schema.from_yaml_file(path)   # noqa: E731
                    e = gd.parse_event(len(events) + 1, "parse_schema", None, parser=parser, spec_for_tlc=loaded)
                    if route == "yaml_file":
                        os.remove(path)
                    add(e, {"op": "parse_schema", "spec": to_lit(loaded), "route": route})
        except Unencodable:
            rep.skipped_unencodable += 1


def json_safe(x):
    if isinstance(x, dict):
        return all(isinstance(k, str) for k in x) and all(json_safe(v) for v in x.values())
    if isinstance(x, list):
        return all(json_safe(i) for i in x)
    return x is None or isinstance(x, (bool, int, float, str))


def run(rep, tier, seed):
    gd.pollute()        # same-named custom callables have been used in this process before any spec is parsed
    os.makedirs(os.path.join(tlc.VERIF, "out"), exist_ok=True)
    a = tlc.model_check_sharded("MC_GrammarPath", "MC_GrammarPath.cfg")
    rep.add_tlc(a, "A:MC_GrammarPath")
    if not a["ok"]:
        raise tlc.MachineryError("leg A: MC_GrammarPath violated on the shipped specification\n" + a["out"][-2500:])
    rng = random.Random(seed + 10)
    events, recipes = [], {}
    make_events(rep, rng, 6000 if tier == "quick" else 100000, events, recipes)
    gd.judge(rep, events, recipes, "C10")
    for e in events[:: max(1, len(events) // 3)][:3]:
        rep.sample({"src": recipes[e["id"]], "outcome": e["outcome"]})
    rep.rule = ("leg A: part / path / rule round-trip and suffix-order laws on a TLA+ universe of 116 parts; leg B: seeded part / part-list / path / path-string / rule / schema recipes x random spellings (long forms, dotted "
                "shorthands, labels, suffix aliases in either order, cast, 9 doc shapes, YAML text and YAML file routes); "
                "each parsed by the real parser; TLC parses the same structure with Grammar.tla and compares the "
                "projection (and the normalised doc); == with the API-built object where association order cannot "
                "differ (<= 2 condition components per part); distinct by spec structure")
    rep.extra["events"] = len(events)
    rep.states = max(rep.states, 1)


def replay(rep, case):
    gd.replay(rep, case, "C10")
