"""C08 - validation is read-only: inputs and schema unchanged, results repeatable.
Leg A: MC_ReadOnly (2 threads, sub-step interleavings: Immutable, DocsUnchanged, Repeatable, every call returns;
       negatives: AsCodedReinit, CastInPlace).
Leg C: Gen_ReadOnly behaviours (sequences of validate / test / get_data / filter sharing one schema and the documents)
       replayed sequentially on shared real objects (write set, structural snapshots, result = specification = fresh
       objects) and then from 4 real threads.
Leg B: the drivers of C01-C07, C15, C17 re-run with the write tracer / snapshots judged by TLC for the ReadOnly clause."""
import random
import threading

from harness import gen, tlc, decode
from harness.common import to_lit
from harness.encode import enc_val, dec_val, Unencodable
from harness.tracer import watch, graph_snap, doc_snap, install
from harness.props import c01, c02, pathdrv, ruledrv, c15, c17
from harness.props.c01 import outcome_of


class Mismatch(Exception):
    def __init__(self, clause, detail):
        self.clause, self.detail = clause, detail


def observe_call(call, schema, rules, docs):
    """perform one call on the given (shared or fresh) objects; returns a comparable result view"""
    kind, r, d = call
    doc = docs[d - 1]
    if kind == "validate":
        vd = schema.validate(doc)
        return {"kind": kind,
                "tests": [{"valid": bool(t.is_valid), "tested": bool(t.tested),
                           "fails": [[enc_val(f.value), [enc_val(x) for x in f.path]] for f in t.failures]} for t in vd.rule_tests],
                "cast_data": enc_val(vd.cast_data)}
    if kind == "ruletest":
        t = rules[r - 1].test(doc)
        return {"kind": kind,
                "tests": [{"valid": bool(t.is_valid), "tested": bool(t.tested),
                           "fails": [[enc_val(f.value), [enc_val(x) for x in f.path]] for f in t.failures]}],
                "cast_data": enc_val(t.data.get_original())}
    if kind == "getdata":
        out = rules[r - 1].path.get_data(doc, return_paths=True)
        if rules[r - 1].path.is_concrete:
            out = [] if out is None else [out]
        return {"kind": kind, "sel": [[enc_val(v), [enc_val(x) for x in p]] for v, p in out]}
    if kind == "filter":
        fd = rules[r - 1].path.parts[0].filter(doc)
        # nfail: the failure listing of the result object (compared with the same call on fresh objects only)
        return {"kind": kind, "sel": [[enc_val(v), [enc_val(k)]] for v, k in zip(fd.data, fd.keys)],
                "nfail": len(fd.get_all_failures())}
    raise ValueError(kind)


def spec_view(got):
    """the part of an observation the specification predicts"""
    return {k: v for k, v in got.items() if k != "nfail"}


def expected_view(res):
    if res["kind"] in ("validate", "ruletest"):
        return {"kind": res["kind"],
                "tests": [{"valid": t["valid"], "tested": t["tested"], "fails": t["fails"]} for t in res["tests"]],
                "cast_data": res["cast_data"]}
    return {"kind": res["kind"], "sel": res["sel"]}


def build_objects(pool, route=0):
    """route 0: Schema(rules); route k > 0: Schema(rules[:k-1]) with Schema(rules[k-1:]) added at the empty root -
    the same schema by the specification, however it was assembled"""
    import valida

    rules = [decode.real_rule(r) for r in pool["rules"]]
    if route:
        schema = ruledrv.assemble(rules, (route - 1) % (len(rules) + 1))
    else:
        schema = valida.Schema(list(rules))
    docs = [dec_val(d) for d in pool["docs"]]
    return schema, rules, docs


def replay_behaviour(pool, beh):
    import zlib
    h = zlib.crc32(repr([x["call"] for x in beh["hist"]]).encode())
    route = 0 if h % 2 else 1 + (h // 2) % (len(pool["rules"]) + 1)
    out0, built = outcome_of(lambda: build_objects(pool, route))
    if out0 != "ok":
        raise Mismatch("ConstructionRaises", f"building the shared schema through the public API: {out0}")
    schema, rules, docs = built
    for si, h in enumerate(beh["hist"], 1):
        call = h["call"]
        if call[0] == "edit":
            # the CALLER edits its own document in place (the same top-level object keeps its identity)
            new = dec_val(h["res"]["sel"][0])
            d = docs[call[2] - 1]
            if isinstance(d, dict):
                d.clear()
                d.update(new)
            else:
                d[:] = new
            continue
        exp = expected_view(h["res"])
        with watch(objs=[schema] + rules, docs=docs) as w:
            out, got = outcome_of(lambda: observe_call(call, schema, rules, docs))
        if out != "ok":
            raise Mismatch("NeverRaises", f"call {si} {call}: {out}")
        if w.writes or not w.objs_unchanged:
            raise Mismatch("SchemaUnchanged", f"call {si} {call}: wrote {w.writes}")
        if not w.docs_unchanged:
            raise Mismatch("DocumentUnchanged", f"call {si} {call}")
        if spec_view(got) != exp:
            raise Mismatch("Repeatable", f"call {si} {call}: real {got} expected {exp}")
        f_schema, f_rules, _ = build_objects(pool)
        import copy as _copy
        fresh = observe_call(call, f_schema, f_rules, _copy.deepcopy(docs))
        if fresh != got:
            raise Mismatch("SameAsFresh", f"call {si} {call}: shared {got} fresh {fresh}")
    # the same calls from 4 real threads on the same shared objects (documents back to their original content)
    orig = [dec_val(d) for d in pool["docs"]]
    for d, o in zip(docs, orig):
        if isinstance(d, dict):
            d.clear()
            d.update(o)
        else:
            d[:] = o
    calls_only = [h for h in beh["hist"] if h["call"][0] != "edit"]
    edited = any(h["call"][0] == "edit" for h in beh["hist"])
    if edited or not calls_only:
        return
    before = (graph_snap(schema), [doc_snap(d) for d in docs])
    errors = []
    barrier = threading.Barrier(4)

    def worker(k):
        try:
            barrier.wait()
            for _ in range(6):
                hs = calls_only[k % len(calls_only):] + calls_only[:k % len(calls_only)]
                for h in hs:
                    got = observe_call(h["call"], schema, rules, docs)
                    if spec_view(got) != expected_view(h["res"]):
                        errors.append(("Repeatable(threads)", f"{h['call']}: {got}"))
                        return
        except Exception as ex:  # noqa
            errors.append(("NeverRaises(threads)", f"{type(ex).__name__}: {ex}"))

    ths = [threading.Thread(target=worker, args=(k,)) for k in range(4)]
    for t in ths:
        t.start()
    for t in ths:
        t.join()
    if errors:
        raise Mismatch(errors[0][0], errors[0][1])
    if (graph_snap(schema), [doc_snap(d) for d in docs]) != before:
        raise Mismatch("Unchanged(threads)", "schema or documents changed during the threaded phase")


def leg_b(rep, tier, seed):
    """recorded calls of the other properties' drivers, judged for the ReadOnly clause only"""
    rng = random.Random(seed + 8)
    n = 1 if tier == "quick" else 12
    total = 0
    # conditions
    evs = []
    for _ in range(500 * n):
        rec = gen.leaf_recipe(rng)
        try:
            be, obj = c01.build_event(len(evs) + 1, rec)
            if obj is None:
                continue
            doc = gen.document(rng, depth=2)
            evs += c01.filter_events(len(evs) + 1, obj, be["proj"], doc)
        except Unencodable:
            continue
    # the same conditions over a caller-owned list of (value, path) pairs with the public data_has_paths option: the
    # caller's list and its pairs are inputs like any other
    npairs = 0
    for _ in range(300 * n):
        t = gen.tree_recipe(rng, depth=rng.randint(0, 2), kinds=gen.VALUE_KINDS, null_p=0.05)
        out0, cnd = outcome_of(lambda: gen.build_tree(t))
        if cnd is None:
            continue
        vals = [gen.value(rng, 1) for _ in range(rng.randint(1, 4))]
        pairs = [(v, tuple(rng.choice(["a", 0, 1]) for _ in range(rng.randint(0, 2)))) for v in vals]
        if rng.random() < 0.3:
            pairs = [list(p) for p in pairs]
        before = doc_snap(pairs)
        with watch(objs=[cnd], docs=[]) as w:
            outcome_of(lambda: cnd.filter(pairs, data_has_paths=True))
        npairs += 1
        if doc_snap(pairs) != before or w.writes or not w.objs_unchanged:
            rep.reject({"clause": "ReadOnly", "leg": "B", "op": "filter_pairs", "writes": w.writes},
                       {"event": {"op": "filter_pairs", "tree": to_lit(t), "pairs": to_lit(pairs), "writes": w.writes}})
    total += npairs
    t_evs, _ = c02.shared_tree_events(rng, 300 * n)
    for e in t_evs:
        e["id"] = len(evs) + 1
        evs.append(e)
    evs = [e for e in evs if e["op"] in ("filter", "test_all")]
    for j, e in enumerate(evs, 1):
        e["id"] = j
    res = tlc.accept("Trace_Cond", "Trace_Cond.cfg", evs, env={"VERIF_PROP": "C08"})
    rep.add_tlc(res, "B:Trace_Cond(ReadOnly)")
    for m in res["mismatches"]:
        e = evs[m["id"] - 1]
        rep.reject({"clause": m["clause"], "leg": "B", "op": e["op"], "writes": e["writes"]}, {"event": e})
    total += len(evs)
    # paths
    evs = []
    for rparts, dt, mt, order, doc in pathdrv.random_cases(rng, 700 * n, True):
        try:
            evs.append(pathdrv.get_event(len(evs) + 1, rparts, dt, mt, order, doc, rng.choice(pathdrv.ENTRIES)))
        except (Unencodable, TypeError, ValueError):
            continue
    res = tlc.accept("Trace_Path", "Trace_Path.cfg", evs, env={"VERIF_PROP": "C08"})
    rep.add_tlc(res, "B:Trace_Path(ReadOnly)")
    for m in res["mismatches"]:
        e = evs[m["id"] - 1]
        rep.reject({"clause": m["clause"], "leg": "B", "op": e["op"], "writes": e["writes"]}, {"event": e})
    total += len(evs)
    # rules / schemas with casts and path arguments
    evs = []
    for _ in range(700 * n):
        try:
            r = rng.random()
            if r < 0.4:
                doc = ruledrv.cast_document(rng, depth=2)
                rrs = [c15.cast_rule(rng, doc) for _ in range(rng.choice([1, 2, 3]))]
                evs.append(ruledrv.validate_event(len(evs) + 1, rrs, doc))
            elif r < 0.7:
                doc = gen.document(rng, depth=3)
                evs.append(ruledrv.ruletest_event(len(evs) + 1, ruledrv.rule_recipe(rng, doc, cast_p=0.3), doc,
                                                  rng.choice(["raw", "Data"])))
            else:
                doc = gen.document(rng, depth=3, strish=0.75)
                rr = {"rparts": gen.path_recipe(rng, doc, maxlen=2), "cond": c17.cross_cond(rng, doc), "cast": None}
                evs.append(ruledrv.ruletest_event(len(evs) + 1, rr, doc, "raw"))
        except (Unencodable, TypeError, ValueError):
            continue
    res = tlc.accept("Trace_Rule", "Trace_Rule.cfg", evs, env={"VERIF_PROP": "C08"})
    rep.add_tlc(res, "B:Trace_Rule(ReadOnly)")
    for m in res["mismatches"]:
        e = evs[m["id"] - 1]
        rep.reject({"clause": m["clause"], "leg": "B", "op": e["op"], "writes": e["writes"]}, {"event": e})
    total += len(evs)
    rep.traces += total
    rep.evaluations += total
    return total


def history_independence(rep, tier, seed):
    """ReadOnly.tla: the result of a read call is a function of its inputs alone.  Conformance: a call made AFTER other
    calls (the ==-but-differently-typed twin of its path first, then the path itself, then the twin again) must give what
    the same call gives in a process-fresh library (valida re-imported: every module-level memo starts empty).
    Runs last: the re-import leaves the write tracer's shims behind."""
    from harness import common
    from harness.props.pathdrv import retyped_twin

    rng = random.Random(seed + 808)
    n = 0
    for _ in range(250 if tier == "quick" else 4000):
        doc = gen.document(rng, depth=rng.choice([2, 3, 3]), strish=0.5)
        rparts = gen.path_recipe(rng, doc, maxlen=3, p_prim=1.0)
        if not rparts or not all(isinstance(p, tuple) for p in rparts):
            continue
        if retyped_twin(rparts) is None:
            continue
        entry = rng.choice(["Data_get_parts", "Data_get_parts", "Data_get_path", "get_data_raw"])
        try:
            history_case(rep, rparts, doc, entry)
        except Unencodable:
            continue
        n += 1
        rep.note_case(repr((rparts, doc, entry, "history")))
    common.bind_source()
    rep.traces += n
    rep.evaluations += 4 * n
    rep.extra["history_sequences"] = n
    return n


def history_case(rep, rparts, doc, entry):
    from harness import common
    from harness.props.pathdrv import retyped_twin

    def call(entry, rparts, doc):
        import valida
        prims = [p[1] for p in rparts]
        if entry == "Data_get_parts":
            return outcome_of(lambda: enc_val(valida.Data(doc).get(*prims, return_paths=True)))
        if entry == "Data_get_path":
            return outcome_of(lambda: enc_val(valida.Data(doc).get(valida.DataPath(*prims), return_paths=True)))
        return outcome_of(lambda: enc_val(valida.DataPath(*prims).get_data(doc, return_paths=True)))

    twin = retyped_twin(rparts)
    common.bind_source()
    fresh_twin = call(entry, twin, doc)
    common.bind_source()
    first = call(entry, rparts, doc)
    after = call(entry, twin, doc)
    again = call(entry, rparts, doc)
    if again != first:
        rep.reject({"clause": "Repeatable", "leg": "H", "entry": entry},
                   {"kind": "history", "rparts": to_lit(rparts), "doc": to_lit(doc), "entry": entry, "detail": "same call twice"})
    if after != fresh_twin:
        rep.reject({"clause": "ResultIndependentOfEarlierCalls", "leg": "H", "entry": entry},
                   {"kind": "history", "rparts": to_lit(rparts), "doc": to_lit(doc), "entry": entry,
                    "detail": f"twin after the path: {after[0]}, in a fresh library: {fresh_twin[0]}"})


def run(rep, tier, seed):
    install()
    for cfg in (["MC_ReadOnly.cfg", "MC_ReadOnly_edits.cfg"] if tier == "quick" else
                ["MC_ReadOnly_2.cfg", "MC_ReadOnly_edits2.cfg"]):
        a = tlc.model_check("ReadOnly", cfg, timeout=6000)
        rep.add_tlc(a, "A:" + cfg)
        if not a["ok"]:
            raise tlc.MachineryError(f"leg A: {cfg} violated on the shipped specification\n" + a["out"][-2500:])
    for cfg, what in [("MC_ReadOnly_reinit.cfg", "on-the-fly combination re-initialises the shared condition"),
                      ("MC_ReadOnly_inplace.cfg", "casts written into the caller's document")]:
        n = tlc.model_check("ReadOnly", cfg)
        if n["ok"]:
            raise tlc.MachineryError(f"leg A: negative configuration {cfg} was not rejected")
        rep.negative_cfgs.append(f"{cfg} ({what})")
    g = tlc.generate("Gen_ReadOnly", "Gen_ReadOnly.cfg" if tier == "quick" else "Gen_ReadOnly_thorough.cfg",
                     simulate=True, extra=["-depth", "400", "-seed", str(seed % 100000)], timeout=1800)
    rep.add_tlc(g, "C:Gen_ReadOnly(simulate)")
    pools = [b for b in g["behaviours"] if b.get("kind") == "pool"]
    behs = [b for b in g["behaviours"] if b.get("kind") == "behaviour"]
    if not pools or not behs:
        raise tlc.MachineryError("Gen_ReadOnly printed no pool / behaviours")
    seen, uniq = set(), []
    for b in behs:
        k = repr([h["call"] for h in b["hist"]])
        if k not in seen:
            seen.add(k)
            uniq.append(b)
    for b in uniq:
        try:
            replay_behaviour(pools[0], b)
        except Mismatch as m:
            rep.reject({"clause": m.clause, "leg": "C"}, {"kind": "behaviour", "pool": pools[0], "behaviour": b,
                                                          "detail": m.detail})
        rep.note_case(repr([h["call"] for h in b["hist"]]))
    rep.traces += len(uniq)
    kinds = {h["call"][0] for b in uniq for h in b["hist"]}
    if not {"validate", "ruletest", "getdata", "filter", "edit"} <= kinds:
        raise tlc.MachineryError(f"vacuity: generated call sequences lack a call kind: {kinds}")
    rep.extra["actions_taken"] = sorted(kinds)
    rep.sample({"behaviour": [h["call"] for h in uniq[0]["hist"]]})
    nb = leg_b(rep, tier, seed)
    nh = history_independence(rep, tier, seed)
    rep.rule = (f"leg C: {len(uniq)} distinct TLC-generated sequences of validate / Rule.test / get_data / part.filter calls on "
                "one shared schema (map-or-list part with a combined condition, two cast rules) and two documents, replayed "
                "sequentially (write tracer, structural snapshots with object identity, result = specification = fresh "
                f"objects) and from 4 threads; leg B: {nb} recorded calls of the C01-C07/C15/C17 drivers judged for an empty "
                "write set and unchanged inputs; leg H: " + str(nh) + " sequences path / ==-twin path / path / twin through Data.get and "
                "get_data compared with the same call in a freshly imported library (module-level state)")
    rep.extra["events"] = nb


def replay(rep, case):
    c = case["case"]
    if c.get("kind") == "history":
        from harness.common import from_lit
        print("history case:", c.get("entry"), c.get("detail"))
        history_case(rep, from_lit(c["rparts"]), from_lit(c["doc"]), c["entry"])
        rep.traces += 1
        rep.states += 1
        rep.transitions += 1
        rep.sample({"history": c.get("entry")})
        return
    if c.get("kind") == "behaviour":
        try:
            replay_behaviour(c["pool"], c["behaviour"])
        except Mismatch as m:
            print("REPLAY mismatch:", m.clause, m.detail[:300])
            rep.reject({"clause": m.clause, "leg": "C"}, c)
        rep.traces += 1
        rep.states += 1
        rep.transitions += len(c["behaviour"]["hist"])
        rep.sample({"replayed": [h["call"] for h in c["behaviour"]["hist"]]})
    else:
        e = c["event"]
        print("recorded event (re-run the check to reproduce):", e.get("op"), e.get("writes"))
        rep.reject({"clause": "ReadOnly", "leg": "B", "op": e.get("op"), "writes": e.get("writes")}, c)
        rep.states += 1
        rep.transitions += 1
        rep.sample({"event": e.get("op")})
