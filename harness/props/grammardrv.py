"""Shared driver of C09, C10, C16, C19 (and the parsing half of C11-C13): spellings of specs for
recipes, recorded parses (outcome, projection, spec before/after, second parse)."""
import copy
import io
import random

from harness import gen, tlc
from harness.common import to_lit, from_lit  # noqa
from harness.encode import enc_val, enc_cond, enc_part, enc_path, enc_rule, Unencodable, V
from harness.props.c01 import outcome_of
from harness.props import ruledrv
from harness.props.ruledrv import PathArg

NULLPATH = {"parts": [], "concrete": True, "dt": "none", "mt": "none"}
NULLPART = {"pk": "none", "cond": {"t": "null"}, "lcond": {"t": "null"}, "mcond": {"t": "null"}, "label": V("none")}
NULLRULE = {"path": NULLPATH, "cond": {"t": "null"}, "cast": []}
TYPE_NAMES = {int: ["int"], float: ["float"], str: ["str"], list: ["list"], dict: ["dict", "map"], bool: ["bool"]}
PARAMS = {"in_range": ["lower", "upper"], "not_in_range": ["lower", "upper"], "equal_to_approx": ["value", "tolerance"],
          "keys_contain_N_of": ["N", "keys"], "keys_contain_at_least_N_of": ["N", "keys"],
          "keys_contain_at_most_N_of": ["N", "keys"]}
ALIASES = {"equal_to": ["eq"], "less_than": ["lt"], "greater_than": ["gt"], "less_than_or_equal_to": ["lte"],
           "greater_than_or_equal_to": ["gte"], "in_": ["in"]}
NONE_FNS = ("truthy", "falsy", "null")
VARPOS = ("is_instance", "keys_contain_any_of", "keys_contain_all_of", "keys_contain_one_of", "keys_equal_to",
          "keys_is_instance", "allowed_keys", "required_keys", "forbidden_keys")


def rcase(rng, s, p=0.5):
    r = rng.random()
    if r < 0.35:
        return s
    if r < 0.5:
        return s.upper()
    if r < 0.6:
        return s.title()
    return "".join(c.upper() if rng.random() < p else c.lower() for c in s)


def spell_type(rng, t, as_obj_p=0.3):
    if isinstance(t, type) and t in TYPE_NAMES:
        if rng.random() < as_obj_p:
            return t
        return rcase(rng, rng.choice(TYPE_NAMES[t]))
    return t


def spell_arg(rng, v, depth=0):
    """a stored argument value -> spec value: path arguments become path specs and literal mappings get their
    path-like keys escaped - exactly where from_spec looks (the argument itself and one level down; not below a
    mapping that has an escaped key), as Unparse.tla UnparseArgD does"""
    if isinstance(v, PathArg):
        return spell_path(rng, v.rparts, v.dt, v.mt)
    if isinstance(v, (list, tuple)):
        # (a spec is a python structure: a tuple argument is written as a tuple, and the condition then holds a tuple)
        if depth == 0:
            return type(v)(spell_arg(rng, i, depth + 1) for i in v)
        return v
    if isinstance(v, dict):
        path_like = any(isinstance(k, str) and k.lower().startswith("path") for k in v)
        recurse = depth == 0 and not path_like
        items = list(v.items())
        if len(items) > 1 and rng.random() < 0.3:
            items.reverse()                  # the entries of a mapping in another order are the same mapping
        return {(("\\" + k) if isinstance(k, str) and k.lower().startswith("path") else k):
                (spell_arg(rng, x, depth + 1) if recurse else x) for k, x in items}
    return v


def spell_leaf(rng, rec):
    datum, pre, fn = rec["datum"], rec["pre"], rec["fn"]
    toks = [rcase(rng, datum)]
    if pre == "dtype":
        toks.append(rcase(rng, rng.choice(["dtype", "type"])))
    elif pre == "length":
        toks.append(rcase(rng, rng.choice(["length", "len"])))
    name = fn
    if fn in ALIASES and rng.random() < 0.4:
        name = rng.choice(ALIASES[fn])
    toks.append(rcase(rng, name))
    key = ".".join(toks)
    acts, akw = list(rec["actuals"]), dict(rec["akw"])
    types = pre == "dtype" or fn in ("is_instance", "keys_is_instance")

    def conv(v, depth=0):
        if types:
            if isinstance(v, list):
                return [spell_type(rng, i) for i in v]
            return spell_type(rng, v)
        return spell_arg(rng, v, depth)

    if fn in NONE_FNS:
        val = None
    elif fn in VARPOS:
        val = [conv(a, 1) for a in acts]
    elif fn == "items_contain":
        items = [(k, conv(v, 1)) for k, v in akw.items()]
        if rng.random() < 0.4:
            items.reverse()                  # the entries of a mapping in another order are the same mapping
        val = dict(items)
    elif fn in PARAMS:
        ps = PARAMS[fn]
        bound = {}
        for j, a in enumerate(acts):
            bound[ps[j]] = a
        bound.update(akw)
        if rng.random() < 0.5 and all(p in bound for p in ps[:len(bound)]):
            val = [conv(bound[p], 1) for p in ps if p in bound]
        else:
            items = [(p, conv(bound[p], 1)) for p in ps if p in bound]
            rng.shuffle(items)
            val = dict(items)
    else:
        a = acts[0] if acts else next(iter(akw.values()))
        val = conv(a)
    return {key: val}


def spell_tree(rng, t):
    if t[0] == "null":
        return rng.choice([{}, None]) if rng.random() < 0.8 else {}
    if t[0] == "leaf":
        return spell_leaf(rng, t[1])
    op = t[0]
    # flatten left-nested same-operator chains sometimes: {"and": [a, b, c]} == (a & b) & c
    if t[1][0] == op and rng.random() < 0.5:
        inner = spell_tree(rng, t[1])
        if isinstance(inner, dict) and op in inner and len(inner[op]) >= 2:
            return {op: inner[op] + [spell_tree(rng, t[2])]}
    return {op: [spell_tree(rng, t[1]), spell_tree(rng, t[2])]}


def arg_spec(rng, x, datum):
    """part datum argument (None | ('prim', v) | tree) -> condition spec"""
    if x[0] == "prim":
        return spell_leaf(rng, {"datum": datum, "pre": "none", "fn": "equal_to", "actuals": [x[1]], "akw": {}})
    return spell_tree(rng, x)


def spell_part(rng, p, force_dict=False):
    if isinstance(p, tuple) and p[0] == "prim":
        return p[1]
    spec = {}
    tname = {"map": "map_value", "list": "list_value", "mol": "map_or_list_value"}[p["rk"]]
    if p["rk"] != "mol" or rng.random() < 0.5:
        spec["type"] = tname
    entries = []
    if p["cond"] is not None:
        entries.append(("condition", spell_tree(rng, p["cond"])))
    if p["rk"] == "mol":
        for nm, slot in (("list_condition", "lcond"), ("map_condition", "mcond")):
            if p.get(slot) is not None:
                entries.append((nm, spell_tree(rng, p[slot])))
    for nm in ("value", "key", "index"):
        x = p.get(nm)
        if x is None or (nm == "key" and p["rk"] == "list") or (nm == "index" and p["rk"] == "map"):
            continue
        cs = arg_spec(rng, x, nm)
        # shorthand only for a single leaf spec whose key starts with the lower-case datum prefix
        if isinstance(cs, dict) and len(cs) == 1 and rng.random() < 0.5:
            k, v = next(iter(cs.items()))
            if "." in k and k.split(".")[0].lower() == nm:
                k2 = nm + k[len(nm):]
                entries.append((k2, v))
                continue
        entries.append((nm, cs))
    given = {k.split(".")[0] for k, _ in entries}
    for nm in ("condition", "value", "key", "index", "label") + (("list_condition", "map_condition") if p["rk"] == "mol" else ()):
        # a slot left empty may be written out as an explicit null (YAML `value:` / JSON null): the same part
        if nm not in given and not (nm == "key" and p["rk"] == "list") and not (nm == "index" and p["rk"] == "map") \
                and not (nm == "label" and p["label"] is not None) and rng.random() < 0.06:
            entries.append((nm, None))
    rng.shuffle(entries)
    for k, v in entries:
        spec[k] = v
    if p["label"] is not None:
        spec["label"] = p["label"]
    return spec


def spell_path(rng, rparts, dt="none", mt="none"):
    toks = ["path"]
    mods = []
    if dt != "none":
        mods.append({"dtype": rng.choice(["dtype", "type"]), "length": rng.choice(["length", "len"]),
                     "map_keys": "map_keys", "map_values": "map_values"}[dt])
    if mt != "none":
        mods.append(mt)
    rng.shuffle(mods)
    key = ".".join([rcase(rng, t) for t in toks + mods])
    return {key: [spell_part(rng, p) for p in rparts]}


def spell_rule(rng, rr, doc_spec="__none__"):
    spec = {"path": [spell_part(rng, p) for p in rr["rparts"]], "condition": spell_tree(rng, rr["cond"])}
    if rr.get("cast"):
        spec["cast"] = {"str": rr["cast"]}
    elif rng.random() < 0.1:
        spec["cast"] = None
    if doc_spec != "__none__":
        spec["doc"] = doc_spec
    items = list(spec.items())
    rng.shuffle(items)
    return dict(items)


DOC_SHAPES = [None, "", "  one line \n", ["first\n", " second "], {"description": " d \n"},
              {"description": ["a ", "b\n"], "examples": [" ex1 \n", "ex2"]}, {"examples": ["only ex \n"]}, {},
              {"description": "has `code` & <b>"}, {"description": "a line", "examples": ["ex 1", " ex 2 "]},
              {"description": " ", "examples": ["only\n"]},
              # every kind of white space at the ends (all of it is stripped), and inside (none of it is)
              "\ttabbed\t", {"description": ["\r\nwindows line\r\n", "\x0bvt\x0c"], "examples": ["ex\t", "\u00a0nbsp\u2003"]},
              ["in\tside  kept", " \t "], {"description": "\x1f unit sep \x1c", "examples": []}, "\u00c9t\u00e9 "]


# ------------------------------------------------------------------ recorded parses
def exc_allowed(ex, op):
    import valida.errors as ve

    if isinstance(ex, (ve.MalformedConditionLikeSpec, ve.MalformedContainerItemSpec, ve.MalformedDataPathSpec,
                       ve.MalformedRuleSpec)):
        return True
    # (a KeyError naming the missing mandatory field: of a rule, or "rules" of a YAML schema document)
    if isinstance(ex, KeyError) and op in ("parse_rule", "parse_schema") and ex.args and ex.args[0] in ("path", "condition", "rules"):
        return True
    if isinstance(ex, RecursionError):
        return False
    return type(ex) in (TypeError, ValueError)


def blank(i, op):
    return {"id": i, "op": op, "spec": V("none"), "delim": 47, "outcome": "", "exc_allowed": True,
            "proj": {"t": "null"}, "ppart": NULLPART, "ppath": NULLPATH, "prule": NULLRULE, "pdoc": V("none"),
            "prules": [], "pdocs": [], "spec_after": V("none"), "outcome2": "", "eq12": True,
            "spec_after2": V("none"), "has_dsl": False, "eq_dsl": True, "eq_dsl_rev": True, "exc": "", "independent": True}


def do_parse(op, spec, delim="/"):
    import valida
    import valida.conditions as vc
    import valida.datapath as dp

    if op == "parse_cond":
        return vc.ConditionLike.from_spec(spec)
    if op == "parse_part":
        return dp.ContainerValue.from_spec(spec)
    if op == "parse_parts":
        return dp.DataPath.from_part_specs(*spec)
    if op == "parse_path":
        return dp.DataPath.from_spec(spec)
    if op == "from_str":
        return dp.DataPath.from_str(spec, delimiter=delim)
    if op == "parse_rule":
        return valida.Rule.from_spec(spec)
    if op == "parse_schema":
        return valida.Schema.from_json_like(spec)
    raise ValueError(op)


def project(e, op, obj):
    if op == "parse_cond":
        e["proj"] = enc_cond(obj)
    elif op == "parse_part":
        e["ppart"] = enc_part(obj)
    elif op in ("parse_parts", "parse_path", "from_str"):
        e["ppath"] = enc_path(obj)
    elif op == "parse_rule":
        e["prule"] = enc_rule(obj)
        e["pdoc"] = enc_val(obj.doc)
    elif op == "parse_schema":
        e["prules"] = [enc_rule(r) for r in obj.rules]
        e["pdocs"] = [enc_val(r.doc) for r in obj.rules]


def parse_event(i, op, spec, dsl=None, delim="/", parser=None, spec_for_tlc=None):
    """spec: a fresh Python structure (it is parsed twice and inspected afterwards).
    parser: optional callable replacing do_parse (e.g. the YAML routes); spec_for_tlc: the structure the
    specification should parse when `spec` is not itself what the parser receives."""
    import valida.conditions as vc
    import valida.datapath as dp
    import valida

    if parser is None and isinstance(spec, (dict, list)):
        import copy as _copy
        spec = _copy.deepcopy(spec)      # the spec handed to the library shares no container with the generator's recipes
    e = blank(i, op)
    e["spec"] = enc_val(spec if spec_for_tlc is None else spec_for_tlc)
    e["delim"] = ord(delim)
    _do = do_parse if parser is None else (lambda _op, _spec, _delim: parser())
    if op == "parse_parts" and parser is None and dsl is not None:
        import zlib
        if zlib.crc32(repr(e["spec"]).encode()) % 4 == 0:       # (by spec, so that a replay takes the same route)
            # a user's subclass of DataPath that adds nothing: its own from_part_specs gives a path of that class, equal
            # to the one its constructor builds from the same parts
            sub = type("LabelledPath", (dp.DataPath,), {})
            _do = lambda _op, _spec, _delim: sub.from_part_specs(*_spec)      # noqa: E731
            import copy as _copy
            dsl = _copy.copy(dsl)
            dsl.__class__ = sub           # the API-built path as an object of the subclass, everything else as it is
    kinds = {"parse_cond": vc.ConditionLike, "parse_part": dp.ContainerValue,
             "parse_parts": dp.DataPath, "parse_path": dp.DataPath, "from_str": dp.DataPath,
             "parse_rule": valida.Rule, "parse_schema": valida.Schema}
    try:
        first = _do(op, spec, delim)
        e["outcome"] = "ok"
    except RecursionError as ex:
        first, e["outcome"], e["exc_allowed"], e["exc"] = None, "raised:RecursionError", False, "RecursionError"
    except Exception as ex:  # noqa
        first = None
        e["outcome"] = "raised:" + type(ex).__name__
        e["exc"] = type(ex).__name__
        e["exc_allowed"] = exc_allowed(ex, op)
    if e["outcome"] == "ok" and not isinstance(first, kinds[op]):
        e["exc"] = "accepted:" + type(first).__name__   # e.g. a tuple returned for {"value.flatten": None}
        first = None                                    # accepted, but nothing that can be projected
    try:
        e["spec_after"] = enc_val(spec) if spec_for_tlc is None else e["spec"]
    except Unencodable:
        e["spec_after"] = V("unencodable")
    if first is not None:
        project(e, op, first)
        if dsl is not None:
            e["has_dsl"] = True
            e["eq_dsl"] = bool(first == dsl)
            e["eq_dsl_rev"] = bool(dsl == first)
        try:
            second = _do(op, spec, delim)
            e["outcome2"] = "ok"
            e["eq12"] = bool(first == second) and bool(second == first)
        except Exception as ex:  # noqa
            e["outcome2"] = "raised:" + type(ex).__name__
        try:
            e["spec_after2"] = enc_val(spec) if spec_for_tlc is None else e["spec"]
        except Unencodable:
            e["spec_after2"] = V("unencodable")
        if spec_for_tlc is None and isinstance(spec, (dict, list)):
            # last of all: the caller goes on editing the containers of its spec; the parsed object must not notice
            before = obj_snap(first)
            poke_spec(spec)
            e["independent"] = obj_snap(first) == before
    return e


def obj_snap(x, depth=0, seen=None):
    """everything a library object holds, by value (no identities): instance attributes of library objects, contents of
    plain containers, scalars, names of types / functions"""
    seen = set() if seen is None else seen
    if depth > 60:
        return ("deep",)
    if type(x).__module__.split(".")[0] == "valida" and hasattr(x, "__dict__") and not isinstance(x, type):
        if id(x) in seen:
            return ("ref",)
        seen.add(id(x))
        return ("vobj", type(x).__name__, tuple((k, obj_snap(v, depth + 1, seen)) for k, v in sorted(vars(x).items())))
    if isinstance(x, dict):
        return ("dict", tuple((obj_snap(k, depth + 1, seen), obj_snap(v, depth + 1, seen)) for k, v in x.items()))
    if isinstance(x, (list, tuple)):
        return (type(x).__name__, tuple(obj_snap(i, depth + 1, seen) for i in x))
    if isinstance(x, (bool, int, float, str, type(None))):
        return (type(x).__name__, x)
    return ("other", getattr(x, "__name__", type(x).__name__))


def pollute():
    """Before any spec is parsed, the process USES custom callables that merely share a NAME with library callables but
    have other signatures (built, compared, filtered with, written out): what a spec means afterwards must not depend
    on that (a memo keyed by a callable's name would)."""
    import valida.conditions as vc

    def in_range(datum, bounds):
        return bounds[0] <= datum < bounds[1]

    def equal_to(datum, a, b=0):
        return datum == a + b

    def keys_contain(datum, *keys):
        return all(k in datum for k in keys)

    def in_(datum, **kw):
        return datum in kw

    def truthy(datum, flag):
        return bool(datum) == flag

    def keys_contain_N_of(datum, keys):
        return len(keys) > 0

    for cnd in (lambda: vc.Value(in_range, (1, 5)), lambda: vc.Value(equal_to, 1, b=2), lambda: vc.Value(keys_contain, "a", "b"),
                lambda: vc.Value(in_, a=1), lambda: vc.Value.length(truthy, True) if hasattr(vc.Value, "length") else None,
                lambda: vc.Key(keys_contain_N_of, ["a"])):
        for use in (lambda c: c.to_json_like(), lambda c: repr(c), lambda c: c == c, lambda c: c.filter([1, {"a": 1}]),
                    lambda c: (c & c).to_json_like()):
            try:
                c = cnd()
                if c is not None:
                    use(c)
            except Exception:  # noqa
                pass


def poke_spec(x, depth=0):
    """in-place edits of every container of a spec (identity kept): an item appended to every list, a key added to
    every mapping"""
    if depth > 12:
        return
    if isinstance(x, dict):
        for v in list(x.values()):
            poke_spec(v, depth + 1)
        x["__poked__"] = 1
    elif isinstance(x, list):
        for v in list(x):
            poke_spec(v, depth + 1)
        x.append("__poked__")


def judge(rep, events, recipes, prop, keyf=None):
    res = tlc.accept("Trace_Grammar", "Trace_Grammar.cfg", events, env={"VERIF_PROP": prop})
    rep.add_tlc(res, "B:Trace_Grammar")
    rep.traces += len(events)
    byid = {e["id"]: e for e in events}
    for m in res["mismatches"]:
        e = byid[m["id"]]
        key = keyf(m, e, recipes.get(m["id"])) if keyf else {"clause": m["clause"], "op": e["op"], "outcome": e["outcome"]}
        rep.reject(key, {"recipe": recipes.get(m["id"]), "event": e})
    return res


def replay(rep, case, prop):
    pollute()
    r = case["case"]["recipe"]
    spec = from_lit(r["spec"])
    ev = [parse_event(1, r["op"], spec, None, r.get("delim", "/"))]
    res = tlc.accept("Trace_Grammar", "Trace_Grammar.cfg", ev, shards=1, env={"VERIF_PROP": prop})
    rep.add_tlc(res, "B:Trace_Grammar(replay)")
    rep.traces += 1
    for m in res["mismatches"]:
        e = ev[0]
        print("REPLAY mismatch:", m["clause"], e["outcome"], e["exc"])
        rep.reject({"clause": m["clause"], "op": e["op"], "outcome": e["outcome"]}, {"recipe": r, "event": e})
    rep.sample({"replayed": r})


# ------------------------------------------------------------------ recipe generators for spec-expressible terms
def spec_leaf_recipe(rng, kinds=None, path_args=False, doc=None):
    """leaf recipes of the DSL fragment that specs can express (dtype classes carry type arguments)"""
    datum, pre = rng.choice(kinds or gen.CLASSES)
    if pre == "dtype":
        fn = rng.choice(["equal_to", "not_equal_to", "in_", "not_in"])
        if fn in ("in_", "not_in"):
            acts = [rng.sample(gen.TYPES, rng.randint(1, 3))]
        else:
            acts = [rng.choice(gen.TYPES)]
        return {"datum": datum, "pre": pre, "fn": fn, "actuals": acts, "akw": {}}
    fn = rng.choice(gen.fns_of(datum, pre))
    acts, akw = gen.leaf_args(rng, fn, pre, well_typed=True)
    if fn in gen.VALUE1 and rng.random() < 0.06:
        # literal mappings whose keys look like path specs (first key, a later key, nested)
        acts = [rng.choice([{"path": ["a"]}, {"b": 1, "path": ["a", 0]}, {"mode": "x", "path.length": ["a"], "z": None},
                            {"a": {"b": 1, "path": [1]}}, [{"b": 2, "path": ["a"]}, 3]] + gen.PATHLIKE_EXTRA)]
    acts = [strkey(a) for a in acts]
    akw = {k: strkey(v) for k, v in akw.items()}
    if fn in ("is_instance", "keys_is_instance"):
        acts = [a for a in acts if isinstance(a, type)] or [int]
    return {"datum": datum, "pre": pre, "fn": fn, "actuals": acts, "akw": akw}


def strkey(v):
    """literal mapping arguments get string keys (JSON); tuples become lists"""
    if isinstance(v, dict):
        return {str(k): strkey(x) for k, x in v.items()}
    if isinstance(v, (list, tuple)):
        return [strkey(i) for i in v]
    return v


def spec_tree_recipe(rng, depth=2, kinds=None, null_p=0.1):
    if depth <= 0 or rng.random() < 0.4:
        if rng.random() < null_p:
            return ("null",)
        return ("leaf", spec_leaf_recipe(rng, kinds))
    op = rng.choice(["and", "or", "xor"])
    if rng.random() < 0.06:
        sub = spec_tree_recipe(rng, depth - 1, kinds, null_p)
        return (rng.choice(["and", "or", "xor", "xor"]), sub, sub)     # ONE object as both operands (c ^ c)
    return (op, spec_tree_recipe(rng, depth - 1, kinds, null_p), spec_tree_recipe(rng, depth - 1, kinds, null_p))


def kinds_for(rng):
    k = rng.choice(["value", "value", "key", "index"])
    ks = [("value", "none"), ("value", "length"), ("value", "dtype")]
    if k == "key":
        ks += [("key", "none"), ("key", "length"), ("key", "dtype")]
    if k == "index":
        ks += [("index", "none")]
    return ks
