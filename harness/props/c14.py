"""C14 - equality is an equivalence relation that implies identical behaviour.
Leg A: MC_Equality (term equality is an equivalence on all triples of a universe of conditions and parts, and implies
       identical behaviour on every document; negative: map-or-list equality ignoring key / index conditions).
Leg B: families {x, x rebuilt, x with operands commuted, single-atom mutants of x} of real conditions, parts, paths,
       rules and schemas: the full real == matrix and the real behaviour on probe documents are recorded; TLC checks
       reflexivity, symmetry, transitivity, rebuilt / commuted equal, and that == implies identical real behaviour and
       identical behaviour of the projected terms under the specification."""
import copy
import random

from harness import gen, tlc
from harness.common import to_lit
from harness.encode import enc_val, enc_cond, enc_part, enc_path, enc_rule, Unencodable
from harness.props.c01 import outcome_of
from harness.props import ruledrv, rtdrv, c10

PROBES = rtdrv.PROBES + [{0: 1, 1: "a", 2: [1]}, [5, 6, 7], {"a": {"0": 1, 0: 2}, "b": [{"a": 1}, {"a": 3}]}]


def mutate_value(rng, v):
    if rng.random() < 0.3:
        # an ==-but-differently-typed twin (2 / 2.0, 1 / True / 1.0, 0 / False / 0.0): whether or not the two objects
        # compare equal, equality must still imply the same behaviour (an int part indexes lists, a float part does not)
        if isinstance(v, bool):
            return rng.choice([int(v), float(v)])
        if isinstance(v, int):
            return float(v) if v not in (0, 1) else rng.choice([bool(v), float(v)])
        if isinstance(v, float) and v == int(v):
            return int(v)
    if isinstance(v, bool):
        return not v
    if isinstance(v, int):
        return v + rng.choice([1, -1, 2])
    if isinstance(v, float):
        return v + 0.5
    if isinstance(v, str):
        return v + "x" if rng.random() < 0.5 else ("b" if v != "b" else "c")
    if isinstance(v, list):
        return v + [rng.choice([0, "z"])] if rng.random() < 0.5 or not v else v[:-1]
    if isinstance(v, dict):
        d = dict(v)
        d["zz"] = 1
        return d
    if isinstance(v, type):
        return rng.choice([t for t in gen.TYPES if t is not v])
    if v is None:
        return 0
    return v


def mutate_tree(rng, t):
    """one atom of the condition tree changed"""
    if t[0] == "null":
        return ("leaf", {"datum": "value", "pre": "none", "fn": "truthy", "actuals": [], "akw": {}})
    if t[0] == "leaf":
        rec = copy.deepcopy(t[1])
        r = rng.random()
        if rec["fn"] == "items_contain" and rec["akw"] and r < 0.5:
            # the keyword NAMES of items_contain are user data: rename one, keep its value
            k = rng.choice(list(rec["akw"]))
            new = rng.choice([n for n in gen.IDENT_KEYS if n not in rec["akw"]])
            rec["akw"] = {(new if q == k else q): v for q, v in rec["akw"].items()}
        elif r < 0.5 and (rec["actuals"] or rec["akw"]):
            if rec["actuals"]:
                j = rng.randrange(len(rec["actuals"]))
                rec["actuals"][j] = mutate_value(rng, rec["actuals"][j])
            else:
                k = rng.choice(list(rec["akw"]))
                rec["akw"][k] = mutate_value(rng, rec["akw"][k])
        elif r < 0.8:
            swap = {"equal_to": "not_equal_to", "less_than": "greater_than", "in_": "not_in", "truthy": "falsy",
                    "in_range": "not_in_range", "allowed_keys": "required_keys", "keys_contain_any_of": "keys_contain_all_of",
                    "factor_of": "has_factor", "less_than_or_equal_to": "less_than", "greater_than_or_equal_to": "greater_than"}
            inv = {v: k for k, v in swap.items()}
            rec["fn"] = swap.get(rec["fn"], inv.get(rec["fn"], rec["fn"]))
        else:
            if rec["pre"] == "none" and rec["fn"] in gen.GENERAL and rec["datum"] != "index":
                rec["pre"] = "length"
            elif rec["pre"] == "length":
                rec["pre"] = "none"
        return ("leaf", rec)
    r = rng.random()
    if r < 0.25:
        return (rng.choice([o for o in ("and", "or", "xor") if o != t[0]]), t[1], t[2])
    if r < 0.6:
        return (t[0], mutate_tree(rng, t[1]), t[2])
    return (t[0], t[1], mutate_tree(rng, t[2]))


def duplicate_operand(rng, t):
    op = rng.choice(["and", "or", "xor"])
    if t[0] in ("and", "or", "xor"):
        side = t[rng.choice([1, 2])]
        return (t[0], side, copy.deepcopy(side))
    return (op, t, copy.deepcopy(t))


def reorder_maps(x):
    """the same recipe with the entries of every mapping ARGUMENT (and the keyword arguments of items_contain) listed
    in reverse order: the same definition"""
    def rev_val(v):
        if isinstance(v, dict):
            return {k: rev_val(w) for k, w in reversed(list(v.items()))}
        if isinstance(v, list):
            return [rev_val(w) for w in v]
        return v
    if isinstance(x, tuple):
        if x and x[0] == "leaf":
            rec = dict(x[1])
            rec["actuals"] = [rev_val(a) for a in rec["actuals"]]
            rec["akw"] = {k: rev_val(v) for k, v in reversed(list(rec["akw"].items()))}
            return ("leaf", rec)
        return tuple(reorder_maps(i) for i in x)
    if isinstance(x, list):
        return [reorder_maps(i) for i in x]
    if isinstance(x, dict):
        return {k: reorder_maps(v) for k, v in x.items()}
    return x


def commute(t):
    if t[0] in ("and", "or", "xor"):
        return (t[0], t[2], t[1])
    return t


def mutate_part(rng, p):
    if isinstance(p, tuple):
        v = p[1]
        return ("prim", mutate_value(rng, v))
    q = dict(p)
    r = rng.random()
    if r < 0.2:
        q["label"] = "other" if q["label"] != "other" else None
    elif r < 0.4:
        q["rk"] = rng.choice([k for k in ("map", "list", "mol") if k != q["rk"]])
        if q["rk"] == "map":
            q["index"] = None
        if q["rk"] == "list":
            q["key"] = None
    else:
        slots = [s for s in ("key", "index", "value", "cond", "lcond", "mcond") if q.get(s) is not None and (q["rk"] == "mol" or s not in ("lcond", "mcond"))]
        if not slots:
            q["value"] = ("prim", 1)
        else:
            s = rng.choice(slots)
            x = q[s]
            q[s] = ("prim", mutate_value(rng, x[1])) if x[0] == "prim" else mutate_tree(rng, x)
    return q


def items_probe(x, acc):
    """the keyword mappings of every items_contain leaf anywhere in a recipe (they are the items that tell
    two such leaves apart)"""
    if isinstance(x, dict):
        if x.get("fn") == "items_contain" and isinstance(x.get("akw"), dict) and x["akw"]:
            acc.append(dict(x["akw"]))
        for v in x.values():
            items_probe(v, acc)
    elif isinstance(x, (list, tuple)):
        for v in x:
            items_probe(v, acc)
    return acc


def classes(sigs):
    ids, seen = [], []
    for s in sigs:
        for j, t in enumerate(seen):
            if t == s:
                ids.append(j)
                break
        else:
            seen.append(s)
            ids.append(len(seen) - 1)
    return ids


def family_event(i, kind, variants, roles, probes):
    """variants: recipes; builds every object, records == matrix, behaviour classes, projections"""
    import valida
    import valida.datapath as dp

    objs, terms, sigs = [], [], []
    # in half of the families the variants SHARE the condition objects of the slots a mutation left alone (one recipe
    # object builds one condition object): equality must not depend on whether two parts hold one object or two equal ones
    gen.MEMO[0] = {} if (kind in ("part", "path", "rule", "schema") and zlib_coin(variants)) else None
    try:
        return _family_event(i, kind, variants, roles, probes, objs, terms, sigs)
    finally:
        gen.MEMO[0] = None


BROKEN = []


def zlib_coin(x):
    import zlib
    return zlib.crc32(repr(x).encode()) % 2 == 0


def _family_event(i, kind, variants, roles, probes, objs, terms, sigs):
    import valida
    import valida.datapath as dp

    for v in variants:
        if kind == "cond":
            o = ruledrv.build_cond(v)
            terms.append(enc_cond(o))
            sigs.append(rtdrv.cond_behaviour(o, probes))
        elif kind == "part":
            o = gen.build_part(v)
            if not isinstance(o, dp.ContainerValue):
                o = dp.DataPath(o).parts[0]
            terms.append(enc_part(o))
            sigs.append([outcome_of(lambda: [enc_val(k) for k in o.filter(d).keys]) for d in probes])
        elif kind == "path":
            o = dp.DataPath(*[gen.build_part(p) for p in v["rparts"]])
            from harness.props.pathdrv import apply_mods
            o = apply_mods(o, v.get("dt", "none"), v.get("mt", "none"), "dm")
            terms.append(enc_path(o))
            sigs.append([outcome_of(lambda: enc_val(o.get_data(d, return_paths=True))) for d in probes])
        elif kind == "rule":
            o = ruledrv.build_rule(v)
            terms.append(enc_rule(o))
            if terms[-1]["path"]["dt"] != v.get("pdt", "none") or len(terms[-1]["path"]["parts"]) != len(v["rparts"]):
                # the object is not the rule that was defined (e.g. the modifier of its path was lost on the way in):
                # reported as an inequality of a rebuilt copy - the definition and the object must agree
                BROKEN.append(repr(v)[:300])
            sigs.append(rtdrv.rule_behaviour(o, probes + rtdrv.CAST_PROBES))
        else:
            o = valida.Schema([ruledrv.build_rule(r) for r in v])
            terms.append([enc_rule(r) for r in o.rules])
            sigs.append(rtdrv.schema_behaviour(o, probes + rtdrv.CAST_PROBES))
        objs.append(o)
    E = [[bool(a == b) for b in objs] for a in objs]
    return {"id": i, "op": "family", "kind": kind, "terms": terms, "E": E, "beh": classes(sigs), "roles": roles,
            "probes": [enc_val(d) for d in probes]}


def make_family(rng, kind):
    doc = gen.document(rng, depth=3, strish=0.7)
    probes = [doc] + PROBES[:6]
    nmut = rng.choice([2, 3, 4])
    if kind == "cond":
        x = gen.tree_recipe(rng, depth=rng.choice([0, 1, 2, 3]), kinds=[("value", "none"), ("value", "length"), ("value", "dtype")], null_p=0.05)
        if rng.random() < 0.3:
            x = duplicate_operand(rng, x)       # a combination of two EQUAL operands, against its one-sided mutants
        vs = [x, reorder_maps(copy.deepcopy(x)), commute(x)] + [mutate_tree(rng, x) for _ in range(nmut)]
        if x[0] in ("and", "or", "xor"):
            vs += [(x[0], mutate_tree(rng, x[1]), x[2]), (x[0], x[1], mutate_tree(rng, x[2]))]
    elif kind == "part":
        x = gen.part_recipe(rng, doc)
        vs = [x, copy.deepcopy(x), reorder_maps(copy.deepcopy(x))] + [mutate_part(rng, x) for _ in range(nmut)]
    elif kind == "path":
        rp = gen.path_recipe(rng, doc, maxlen=3) or [gen.prim_part(rng, doc)]
        x = {"rparts": rp, "dt": "none", "mt": "none"}
        vs = [x, copy.deepcopy(x), copy.deepcopy(x)]
        for _ in range(nmut):
            y = copy.deepcopy(x)
            r = rng.random()
            j = rng.randrange(len(rp))
            if r < 0.7:
                y["rparts"][j] = mutate_part(rng, rp[j])
            elif r < 0.85:
                y["dt"] = rng.choice(["length", "dtype"])
            else:
                y["rparts"] = y["rparts"][:-1] if len(rp) > 1 else y["rparts"] + [("prim", 0)]
            vs.append(y)
    elif kind == "rule":
        x = ruledrv.rule_recipe(rng, doc, cast_p=0.3, maxlen=2)
        if rng.random() < 0.25:
            x["cond"] = duplicate_operand(rng, x["cond"])
        vs = [x, reorder_maps(copy.deepcopy(x)), dict(x, cond=commute(x["cond"]))]
        for _ in range(nmut):
            y = copy.deepcopy(x)
            r = rng.random()
            if r < 0.45 and y["rparts"]:
                j = rng.randrange(len(y["rparts"]))
                y["rparts"][j] = mutate_part(rng, y["rparts"][j])
            elif r < 0.8:
                y["cond"] = mutate_tree(rng, y["cond"])
            else:
                y["cast"] = rng.choice([c for c in (None, "bool", "int") if c != y["cast"]])
            vs.append(y)
        if rng.random() < 0.35:
            # the rule's OWN path with a datum modifier: another rule (it judges the length / the keys of what is selected)
            vs.append(dict(copy.deepcopy(x), pdt=rng.choice(["length", "map_keys", "dtype"])))
        if rng.random() < 0.15:
            # ... and the rule on the document itself (no parts) next to the rule on its length
            root = dict(copy.deepcopy(x), rparts=[])
            vs += [root, dict(copy.deepcopy(root), pdt=rng.choice(["length", "dtype"]))]
    else:
        x = [ruledrv.rule_recipe(rng, doc, cast_p=0.2, maxlen=2) for _ in range(rng.choice([1, 2, 2, 3]))]
        vs = [x, reorder_maps(copy.deepcopy(x)), [dict(r, cond=commute(r["cond"])) for r in x]]
        for _ in range(nmut):
            y = copy.deepcopy(x)
            j = rng.randrange(len(y))
            if rng.random() < 0.5 and y[j]["rparts"]:
                q = rng.randrange(len(y[j]["rparts"]))
                y[j]["rparts"][q] = mutate_part(rng, y[j]["rparts"][q])
            else:
                y[j]["cond"] = mutate_tree(rng, y[j]["cond"])
            vs.append(y)
        if len(x) >= 2:
            # the rules in another order, one rule twice instead of two different ones, one rule left out: whatever ==
            # says about these, it says the same both ways round, and equal schemas judge alike
            vs.append(list(reversed(copy.deepcopy(x))))
            vs.append([copy.deepcopy(x[0])] * 1 + [copy.deepcopy(x[0])] + copy.deepcopy(x[2:]))
            vs.append(copy.deepcopy(x[1:] + x[:1]))
    roles = ["x", "rebuilt", "commuted"] + ["mutant"] * (len(vs) - 3)
    ip = items_probe(vs, [])
    if ip:
        uniq = [d for j, d in enumerate(ip) if d not in ip[:j]][:6]
        probes = probes + [uniq, {str(j): d for j, d in enumerate(uniq)}]
    return vs, roles, probes


def run(rep, tier, seed):
    a = tlc.model_check_sharded("MC_Equality", "MC_Equality.cfg", nshards=8)
    rep.add_tlc(a, "A:MC_Equality")
    if not a["ok"]:
        raise tlc.MachineryError("leg A: MC_Equality violated on the shipped specification\n" + a["out"][-2500:])
    n = tlc.model_check("MC_Equality", "MC_Equality_ascoded.cfg")
    if n["ok"]:
        raise tlc.MachineryError("leg A: negative configuration MC_Equality_ascoded.cfg was not rejected")
    rep.negative_cfgs.append("MC_Equality_ascoded.cfg (map-or-list part equality ignores key / index conditions)")
    n2 = tlc.model_check("MC_Equality", "MC_Equality_loose.cfg")
    if n2["ok"]:
        raise tlc.MachineryError("leg A: negative configuration MC_Equality_loose.cfg was not rejected")
    rep.negative_cfgs.append("MC_Equality_loose.cfg (arguments compared with python == alone: in_range(1, 5) == in_range(1.0, 5))")
    rng = random.Random(seed + 14)
    events, recipes = [], {}
    for _ in range(1800 if tier == "quick" else 30000):
        kind = rng.choice(["cond", "part", "part", "path", "path", "rule", "rule", "schema"])
        try:
            vs, roles, probes = make_family(rng, kind)
            e = family_event(len(events) + 1, kind, vs, roles, probes)
        except Unencodable:
            rep.skipped_unencodable += 1
            continue
        except (TypeError, ValueError, AttributeError, KeyError):
            continue                 # a mutant that cannot be constructed is not a family member
        if BROKEN:
            rep.reject({"clause": "ObjectIsTheRuleDefined", "kind": kind}, {"recipe": {"kind": kind, "variants": repr(vs)[:3000], "roles": roles},
                                                                           "event": e, "detail": BROKEN[0]})
            del BROKEN[:]
        events.append(e)
        recipes[e["id"]] = {"kind": kind, "variants": repr(vs)[:3000], "roles": roles}
        rep.note_case(repr(vs), nontrivial=len(set(e["beh"])) > 1)
        rep.evaluations += len(vs) * len(vs) - 1
    res = tlc.accept("Trace_Equality", "Trace_Equality.cfg", events)
    rep.add_tlc(res, "B:Trace_Equality")
    rep.traces += len(events)
    byid = {e["id"]: e for e in events}
    for m in res["mismatches"]:
        e = byid[m["id"]]
        rep.reject({"clause": m["clause"], "kind": e["kind"]}, {"recipe": recipes[m["id"]], "event": e})
    for e in events[:2]:
        rep.sample({"kind": e["kind"], "E": e["E"], "beh": e["beh"], "roles": e["roles"]})
    rep.rule = ("families of 5-7 real objects per seed (conditions, parts, paths, rules, schemas): x, x rebuilt, x with operands "
                "commuted, single-atom mutants (a key, an index, an argument, a callable, a pre-processor, an operator, a "
                "part kind, a label, a cast, a modifier); full == matrix (counted as evaluations) and behaviour on 7 probe "
                "documents; non-trivial = at least two behaviour classes in the family")
    rep.extra["families"] = len(events)


def replay(rep, case):
    e = case["case"]["event"]
    print("family kind", e["kind"], "E", e["E"], "beh", e["beh"], "roles", e["roles"])
    print(case["case"]["recipe"]["variants"][:1500])
    res = tlc.accept("Trace_Equality", "Trace_Equality.cfg", [dict(e, id=1)], shards=1)
    rep.add_tlc(res, "B:Trace_Equality(replay of the recorded family)")
    rep.traces += 1
    for m in res["mismatches"]:
        rep.reject({"clause": m["clause"], "kind": e["kind"]}, case["case"])
    rep.sample({"replayed": e["kind"]})
