"""C02 - and/or/xor combinations are pointwise Boolean algebra with null as identity; operands unaltered.

Leg A: MC_CondHeap (heap machine: Immutable, Acyclic, Pointwise, NullIdentity; negative cfg AsCodedReinit).
Leg C: every behaviour of Gen_CondHeap (exhaustive depth 2 over the leaf pool + simulated deeper ones with part
       constructors) replayed into real objects; after every step identity structure, projections, write set and
       filter results of every live object are compared with the specification's heap.
Leg B: seeded random deep trees (nulls everywhere, shared operands) built with the real operators / classes /
       spec lists, judged by Trace_Cond (Filter of the projected tree) and Trace_Cond clauses."""
import random
from concurrent.futures import ProcessPoolExecutor

from harness import gen, tlc, decode
from harness.common import to_lit, from_lit
from harness.encode import enc_val, enc_cond, enc_part, dec_val, Unencodable
from harness.tracer import watch
from harness.props import c01

OPSYM = {"and": lambda a, b: a & b, "or": lambda a, b: a | b, "xor": lambda a, b: a ^ b}


def opclass(op):
    import valida.conditions as c

    return {"and": c.ConditionAnd, "or": c.ConditionOr, "xor": c.ConditionXor}[op]


def agrees(obs, exp):
    return len(obs) == len(exp) and all(e == "U" or o == (e == "T") for o, e in zip(obs, exp))


class Mismatch(Exception):
    def __init__(self, clause, detail):
        self.clause, self.detail = clause, detail


def replay_behaviour(beh, docs, variant):
    """Step the behaviour through real objects.  Raises Mismatch(clause, detail)."""
    import valida.datapath as dp

    cells = beh["cells"]
    npool = beh["npool"]
    objs = {}                      # cell id -> real object
    for o in range(1, npool + 1):
        objs[o] = decode.real_cond(cells[o - 1]["term"])

    def bind(o, real, step):
        """object `real` must be the one the specification has at cell o (identity structure)"""
        if o in objs:
            if objs[o] is not real:
                raise Mismatch("IdentityStructure", f"step {step}: cell {o} is not the expected object")
            return
        objs[o] = real
        cell = cells[o - 1]["cell"]
        k = cell["kind"]
        if k in ("and", "or", "xor"):
            ch = getattr(real, "children", None)
            if not isinstance(ch, tuple) or len(ch) != 2:
                raise Mismatch("IdentityStructure", f"step {step}: cell {o} has no two children")
            bind(cell["l"], ch[0], step)
            bind(cell["r"], ch[1], step)
        elif k in ("map", "list"):
            bind(cell["c"], real.condition, step)
        elif k == "mol":
            bind(cell["lc"], real.list_condition, step)
            bind(cell["mc"], real.map_condition, step)
            bind(cell["c"], real.condition, step)

    def check_all(step, hl):
        for o in range(1, hl + 1):
            if o not in objs:
                continue        # internal garbage of a refused construction
            cv = cells[o - 1]
            real = objs[o]
            if cv["cell"]["kind"] in ("map", "list", "mol"):
                proj = enc_part(real)
                exp = cv["part"]
                if (proj["pk"], proj["cond"], proj["lcond"], proj["mcond"]) != (exp["pk"], exp["cond"], exp["lcond"], exp["mcond"]):
                    raise Mismatch("HeapProjection", f"step {step}: part cell {o} projects to {proj}, expected {exp}")
            else:
                proj = enc_cond(real)
                if proj != cv["term"]:
                    raise Mismatch("HeapProjection", f"step {step}: cell {o} projects to {proj}, expected {cv['term']}")
            for di, d in enumerate(docs):
                ev = cv["evals"][di]
                with watch(objs=[real], docs=[d]) as w:
                    out, fd = c01.outcome_of(lambda: real.filter(d))
                if w.writes or not w.objs_unchanged or not w.docs_unchanged:
                    raise Mismatch("ReadOnly", f"step {step}: filtering cell {o} wrote {w.writes}")
                if ev["refused"]:
                    if out != "raised:TypeError":
                        raise Mismatch("Refusal", f"step {step}: cell {o} on doc {di}: expected TypeError, got {out}")
                    continue
                if out != "ok":
                    raise Mismatch("NeverAborts", f"step {step}: filtering cell {o} on doc {di}: {out}")
                if not agrees([bool(b) for b in fd.result], ev["os"]):
                    raise Mismatch("Pointwise", f"step {step}: cell {o} on doc {di}: {fd.result} expected {ev['os']}")

    for si, h in enumerate(beh["hist"], 1):
        st = h["step"]
        act = st["act"]
        live = [objs[o] for o in sorted(objs)]
        with watch(objs=live, docs=docs) as w:
            if act == "Combine":
                a, b = objs[st["a"]], objs[st["b"]]
                if (variant + si) % 2 == 0:
                    out, res = c01.outcome_of(lambda: OPSYM[st["op"]](a, b))
                else:
                    out, res = c01.outcome_of(lambda: opclass(st["op"])(a, b))
            elif act == "MkPart":
                k = objs.get(st["a"]) if st["a"] else None
                v = objs.get(st["b"]) if st["b"] else None
                c = objs.get(st["c"]) if st["c"] else None
                if st["op"] == "map":
                    out, res = c01.outcome_of(lambda: dp.MapValue(key=k, value=v, condition=c))
                else:
                    out, res = c01.outcome_of(lambda: dp.ListValue(index=k, value=v, condition=c))
            elif act == "MkMol":
                k = objs.get(st["a"]) if st["a"] else None
                k2 = objs.get(st["k2"]) if st["k2"] else None
                v = objs.get(st["b"]) if st["b"] else None
                c = objs.get(st["c"]) if st["c"] else None
                lc = objs.get(st["lc"]) if st.get("lc") else None
                mc = objs.get(st["mc"]) if st.get("mc") else None
                if (variant + si) % 2 == 0:       # by keyword / by position (the documented parameter order)
                    out, res = c01.outcome_of(lambda: dp.MapOrListValue(key=k, index=k2, value=v, condition=c,
                                                                        list_condition=lc, map_condition=mc))
                else:
                    out, res = c01.outcome_of(lambda: dp.MapOrListValue(k, k2, v, lc, mc, c))
            elif act == "PartFilter":
                part = objs[st["a"]]
                want_list = st["op"] == "list"
                d = next(x for x in docs if isinstance(x, list) == want_list)
                out, res = c01.outcome_of(lambda: part.filter(d))
                res = None
            else:
                raise Mismatch("UnknownAction", act)
        if w.writes or not w.objs_unchanged:
            raise Mismatch("Immutable", f"step {si} {act}: wrote {w.writes} to pre-existing objects")
        if not w.docs_unchanged:
            raise Mismatch("DocsUnchanged", f"step {si} {act}")
        if out != st["out"]:
            raise Mismatch("Outcome", f"step {si} {act}{(st['op'], st['a'], st['b'], st['c'])}: real {out}, spec {st['out']}")
        if st["out"] == "ok" and st["res"]:
            bind(st["res"], res, si)
        check_all(si, h["hl"])


def _replay_chunk(args):
    docs_enc, behs, base = args
    from harness import common
    common.bind_source()
    docs = [dec_val(d) for d in docs_enc]
    bad = []
    for i, beh in enumerate(behs):
        try:
            replay_behaviour(beh, docs, base + i)
        except Mismatch as m:
            bad.append((base + i, m.clause, m.detail))
    return bad


def replay_all(rep, behaviours, docs_enc, npool, label):
    for b in behaviours:
        b["npool"] = npool
    n = 16
    chunks = [(docs_enc, behaviours[i::n], i * 10 ** 6) for i in range(n) if behaviours[i::n]]
    # the parsed behaviours are large: keep the forked workers from copying the parent's heap page by page (a collection
    # in a child writes to the header of every tracked object it inherited)
    import gc
    gc.collect()
    gc.freeze()
    try:
        with ProcessPoolExecutor(max_workers=n) as ex:
            results = list(ex.map(_replay_chunk, chunks))
    finally:
        gc.unfreeze()
    rep.traces += len(behaviours)
    for ci, bad in enumerate(results):
        for idx, clause, detail in bad:
            beh = chunks[ci][1][idx - chunks[ci][2]]
            acts = [(h["step"]["act"], h["step"]["op"], h["step"]["a"], h["step"]["b"], h["step"]["out"]) for h in beh["hist"]]
            kinds = sorted({h["step"]["act"] for h in beh["hist"]})
            rep.reject({"clause": clause, "leg": "C", "acts": kinds if clause != "Outcome" else acts[-1:]},
                       {"kind": "behaviour", "label": label, "behaviour": beh, "docs": docs_enc, "detail": detail})


def split_gen(res):
    pool = [b for b in res["behaviours"] if b.get("kind") == "pool"]
    behs = [b for b in res["behaviours"] if b.get("kind") == "behaviour"]
    if not pool:
        raise tlc.MachineryError("generator printed no pool line")
    return pool[0], behs


# ------------------------------------------------------------------ leg B: random deep trees
def lamify(rng, t):
    """some leaves become CUSTOM callables with the same meaning (anonymous functions: the library cannot tell two of
    them apart by name), and now and then two sibling operands are custom callables with the same argument but a
    different meaning"""
    if t[0] == "leaf":
        if gen.lam_ok(t[1]) and rng.random() < 0.6:
            return ("leaf", dict(t[1], lam=True))
        return t
    if t[0] == "null":
        return t
    if rng.random() < 0.25:
        v = rng.choice([1, 2, 3, "a", 2.5])
        mk = lambda fn: ("leaf", {"datum": "value", "pre": rng.choice(["none", "none", "length"]), "fn": fn,   # noqa: E731
                                  "actuals": [v], "akw": {}, "lam": True})
        a, b = rng.sample(sorted(gen.LAM_FUNCS), 2)
        pair = (rng.choice(["and", "or", "xor"]), mk(a), mk(b))
        return (t[0], pair, lamify(rng, t[2])) if rng.random() < 0.5 else (t[0], lamify(rng, t[1]), pair)
    return (t[0], lamify(rng, t[1]), lamify(rng, t[2]))


def shared_tree_events(rng, n):
    """Build trees with the real operators from a small set of shared leaf objects; record
    combine results (projection + identity of operands afterwards) and filters."""
    import valida.conditions as c

    events, recipes = [], {}
    for _ in range(n):
        kind = rng.choice(["value", "value", "key", "index"])
        kinds = [("value", "none"), ("value", "length"), ("value", "dtype")]
        if kind == "key":
            kinds += [("key", "none"), ("key", "length")]
        if kind == "index":
            kinds += [("index", "none")]
        t = gen.tree_recipe(rng, depth=rng.randint(1, 5), kinds=kinds, null_p=0.25)
        if rng.random() < 0.3:
            t = lamify(rng, t)
        want_map = kind == "key" or (kind == "value" and rng.random() < 0.5)
        docs = []
        for _k in range(2):
            d = gen.document(rng, depth=2, strish=0.6)
            tries = 0
            while isinstance(d, dict) != want_map and tries < 20:
                d = gen.document(rng, depth=2, strish=0.6)
                tries += 1
            docs.append(d)
        try:
            out, obj = c01.outcome_of(lambda: gen.build_tree(t))
            if obj is None:
                e = c01.blank(len(events) + 1)
                e.update(op="buildtree", outcome=out, cond=tree_term(t))
                events.append(e)
                recipes[e["id"]] = {"kind": "tree", "tree": to_lit(t)}
                continue
            cterm = enc_cond(obj)
            e = c01.blank(len(events) + 1)
            e.update(op="buildtree", outcome="ok", cond=tree_term(t), proj=cterm)
            events.append(e)
            recipes[e["id"]] = {"kind": "tree", "tree": to_lit(t)}
            for d in docs:
                for ev in c01.filter_events(len(events) + 1, obj, cterm, d, entries=("filter", "test_all", "filter_src")):
                    events.append(ev)
                    recipes[ev["id"]] = {"kind": "treefilter", "tree": to_lit(t), "doc": to_lit(d)}
        except Unencodable:
            continue
    return events, recipes


def tree_term(t):
    """recipe tree -> un-normalised term (the specification applies the null short-circuit itself)"""
    if t[0] == "null":
        return {"t": "null"}
    if t[0] == "leaf":
        rec = t[1]
        return {"t": "rleaf", "fn": rec["fn"], "datum": rec["datum"], "pre": rec["pre"],
                "actuals": [enc_val(a) for a in rec["actuals"]],
                "akw": [{"name": k, "nc": [ord(ch) for ch in k], "v": enc_val(v)} for k, v in rec["akw"].items()]}
    return {"t": t[0], "l": tree_term(t[1]), "r": tree_term(t[2])}


def run(rep, tier, seed):
    # ---- leg A
    a = tlc.model_check("MC_CondHeap", "MC_CondHeap.cfg" if tier == "quick" else "MC_CondHeap_8.cfg")
    rep.add_tlc(a, "A:MC_CondHeap")
    if not a["ok"]:
        raise tlc.MachineryError("leg A: MC_CondHeap violated on the shipped specification\n" + a["out"][-2500:])
    n = tlc.model_check("MC_CondHeap", "MC_CondHeap_ascoded.cfg")
    if n["ok"]:
        raise tlc.MachineryError("leg A: negative configuration MC_CondHeap_ascoded.cfg was not rejected")
    rep.negative_cfgs.append("MC_CondHeap_ascoded.cfg (AsCodedReinit violates Acyclic/Immutable)")
    # unbounded complement: the skeleton of the heap machine (append-only allocation, null short-circuit allocates
    # nothing) keeps Acyclic and leaves every existing cell as it is, for heaps of ANY size - checked by TLAPS
    nob, proved = tlc.tlaps("HeapProof")
    if proved != nob:
        raise tlc.MachineryError(f"TLAPS: only {proved} of {nob} obligations of HeapProof.tla proved")
    rep.extra["tlaps_obligations"] = nob
    rep.extra["tlaps_discharged"] = proved

    # ---- leg C
    g1 = tlc.generate("Gen_CondHeap", "Gen_CondHeap_combine.cfg" if tier == "quick" else "Gen_CondHeap.cfg",
                      timeout=1800)
    rep.add_tlc(g1, "C:Gen_CondHeap(exhaustive depth 2)")
    pool, behs = split_gen(g1)
    replay_all(rep, behs, pool["docs"], pool["npool"], "exhaustive")
    # deterministic coverage of the map-or-list part and of part.filter (the random walk below may miss them)
    g3 = tlc.generate("Gen_CondHeap", "Gen_CondHeap_mol.cfg", timeout=1800)
    rep.add_tlc(g3, "C:Gen_CondHeap(exhaustive MkMol/PartFilter depth 2)")
    pool3, behs3 = split_gen(g3)
    replay_all(rep, behs3, pool3["docs"], pool3["npool"], "exhaustive-mol")
    nex = len(behs) + len(behs3)
    g2 = tlc.generate("Gen_CondHeap", "Gen_CondHeap_sim.cfg" if tier == "quick" else "Gen_CondHeap_sim7.cfg",
                      simulate=True, extra=["-depth", "9", "-seed", str(seed % 100000)], timeout=1800)
    rep.add_tlc(g2, "C:Gen_CondHeap(simulate)")
    pool2, behs2 = split_gen(g2)
    seen, uniq = set(), []
    for b in behs2:
        k = repr(b["hist"])
        if k not in seen:
            seen.add(k)
            uniq.append(b)
    replay_all(rep, uniq, pool2["docs"], pool2["npool"], "simulate")
    acts = {h["step"]["act"] for b in uniq + behs3 for h in b["hist"]}
    if not {"Combine", "MkPart", "MkMol", "PartFilter"} <= acts:
        raise tlc.MachineryError(f"vacuity: generated behaviours never take {{'Combine','MkPart','MkMol','PartFilter'}} - {acts}")
    outs = {h["step"]["out"] for b in behs + behs3 + uniq for h in b["hist"]}
    if "raised:TypeError" not in outs:
        raise tlc.MachineryError("vacuity: no generated behaviour contains the key/index refusal")
    rep.extra["actions_taken"] = sorted(acts)
    for b in (behs[:1] + uniq[:1]):
        rep.sample({"behaviour": [h["step"] for h in b["hist"]]})
    for b in behs + behs3 + uniq:
        rep.note_case(repr(b["hist"]), nontrivial=True)

    # ---- leg B
    rng = random.Random(seed + 2)
    events, recipes = shared_tree_events(rng, 1500 if tier == "quick" else 40000)
    res = tlc.accept("Trace_Cond", "Trace_Cond.cfg", events)
    rep.add_tlc(res, "B:Trace_Cond")
    rep.traces += len(events)
    byid = {e["id"]: e for e in events}
    for m in res["mismatches"]:
        e = byid[m["id"]]
        rep.reject({"clause": m["clause"], "leg": "B", "op": e["op"], "outcome": e["outcome"]},
                   {"recipe": recipes[m["id"]], "event": e})
    for e in events[:2]:
        rep.sample({"op": e["op"], "src": recipes[e["id"]], "outcome": e["outcome"]})
    for e in events:
        rep.note_case(repr(recipes[e["id"]]), nontrivial=e["op"] == "buildtree" or len(set(e["result"])) > 1)
    # combinations whose leaves carry DATA-PATH arguments, evaluated with source data (through Rule.test over a fan-out
    # of the document's children): every operator hands the source data down to both operands - judged by Trace_Rule
    from harness.props import ruledrv, c17
    revents, rrecipes = [], {}
    for _ in range(400 if tier == "quick" else 8000):
        doc = gen.document(rng, depth=rng.choice([2, 3]), strish=0.75)
        fan = {"rk": "map" if isinstance(doc, dict) else "list", "key": None, "index": None, "value": None, "cond": None, "label": None}
        rr = {"rparts": [fan], "cond": c17.cross_tree(rng, doc, rng.choice([1, 2, 2, 3])), "cast": None}
        try:
            ev = ruledrv.ruletest_event(len(revents) + 1, rr, doc, "raw")
        except (Unencodable, TypeError, ValueError):
            continue
        revents.append(ev)
        rrecipes[ev["id"]] = {"op": "ruletest", "rule": ruledrv.lit_rule(rr), "doc": to_lit(doc), "entry": "raw"}
        rep.note_case(repr((rr, doc)), nontrivial=ev["tested"])
    ruledrv.judge(rep, revents, rrecipes, lambda m, e: {"clause": m["clause"], "leg": "B-source", "op": e["op"], "outcome": e["outcome"]})
    rep.extra["source_data_events"] = len(revents)
    rep.rule = ("leg C: every behaviour of the heap machine (Combine over a 5-leaf pool incl. key-, index-kind and null; "
                f"exhaustive depth 2: {nex}; simulated depth with MkPart/MkMol/PartFilter: {len(uniq)} distinct) replayed "
                "step by step into real objects (identity structure, projection of every live object, write set, filter "
                "results on 3 documents after every step); leg B: seeded random trees (depth <= 5, nulls in every "
                "position) built with the real classes and filtered on 2 documents, judged by TLC")
    rep.exhaustive = True
    rep.extra["behaviours_replayed"] = nex + len(uniq)


def replay(rep, case):
    c = case["case"]
    if c.get("kind") == "behaviour":
        docs = [dec_val(d) for d in c["docs"]]
        try:
            replay_behaviour(c["behaviour"], docs, 0)
            replay_behaviour(c["behaviour"], docs, 1)
        except Mismatch as m:
            print("REPLAY mismatch:", m.clause, m.detail)
            rep.reject({"clause": m.clause, "leg": "C"}, c)
        rep.traces += 1
        rep.states += 1
        rep.transitions += len(c["behaviour"]["hist"])
        rep.sample({"replayed": [h["step"] for h in c["behaviour"]["hist"]]})
        return
    r = c["recipe"]
    if r.get("op") == "ruletest":
        from harness.props import ruledrv
        return ruledrv.replay(rep, case)
    t = from_lit(r["tree"])
    events = []
    out, obj = c01.outcome_of(lambda: gen.build_tree(t))
    e = c01.blank(1)
    e.update(op="buildtree", outcome=out, cond=tree_term(t), proj=enc_cond(obj) if obj is not None else {"t": "null"})
    events.append(e)
    if obj is not None and r["kind"] == "treefilter":
        events += c01.filter_events(2, obj, e["proj"], from_lit(r["doc"]), entries=("filter",))
    res = tlc.accept("Trace_Cond", "Trace_Cond.cfg", events, shards=1)
    rep.add_tlc(res, "B:Trace_Cond(replay)")
    rep.traces += len(events)
    for m in res["mismatches"]:
        ev = events[m["id"] - 1]
        print("REPLAY mismatch:", m["clause"], ev["op"], ev["outcome"])
        rep.reject({"clause": m["clause"], "leg": "B", "op": ev["op"], "outcome": ev["outcome"]}, c)
    rep.sample({"replayed": r})
