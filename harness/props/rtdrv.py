"""Shared driver of C11, C12, C13: serialise -> real JSON text -> rebuild -> compare."""
import json
import random

from harness import gen, tlc
from harness.common import to_lit, from_lit
from harness.encode import enc_val, enc_cond, enc_path, enc_rule, Unencodable, V
from harness.recipes import enc_rpart
from harness.tracer import doc_snap
from harness.props.c01 import outcome_of
from harness.props import ruledrv, grammardrv as gd, c10, c17
from harness.props.ruledrv import PathArg

NULLPATH = gd.NULLPATH
NULLRULE = gd.NULLRULE
PROBES = [[1, "a", 2.5, None, [1], {"a": 1}], {"a": 1, "b": "x", "ab": [1, 2], "c": {"a": 2}}, [0, True, "", {}],
          {0: "k0", 1: {"a": "true"}, "a": [3, "3", {"a": 0}]}, [[1, 2], {"a": [0, "x3"]}, "3"], {"a": {"a": {"a": 1}}, 1.5: [1]}]


def blank(i, op):
    return {"id": i, "op": op, "outcome": "", "js": V("none"), "json_ok": False, "outcome_rb": "", "eq": False,
            "eq_rev": False, "js2_ok": False, "js2": V("none"), "behaves_same": False,
            "rcond": {"t": "null"}, "proj_rb": {"t": "null"}, "rparts": [], "from_specs": False, "ppath_rb": NULLPATH,
            "probes": [], "rule": {"rparts": [], "dt": "none", "mt": "none", "rcond": {"t": "null"}, "cast": []},
            "prule_rb": NULLRULE, "rules": [], "prules_rb": [], "exc": "", "kw_same": True, "snapshot_ok": True}


def json_roundtrip(js):
    """(ok, loaded): real JSON text round trip must give back the same structure, type-exactly"""
    try:
        text = json.dumps(js)
        back = json.loads(text)
    except Exception:  # noqa
        return False, None
    ok = doc_snap_noid(back) == doc_snap_noid(js)
    # JSON objects are unordered: in transit the keys may come back in another order (here: sorted, for half the texts)
    import zlib
    if ok and zlib.crc32(text.encode()) % 2 == 0:
        back = json.loads(json.dumps(js, sort_keys=True))
    return ok, back


def doc_snap_noid(x):
    if isinstance(x, dict):
        return ("dict", tuple((doc_snap_noid(k), doc_snap_noid(v)) for k, v in x.items()))
    if isinstance(x, (list, tuple)):
        return (type(x).__name__, tuple(doc_snap_noid(i) for i in x))
    return (type(x).__name__, x)


def cond_behaviour(c, probes=PROBES):
    out = []
    for d in probes:
        out.append(outcome_of(lambda: list(c.filter(d).result)))
    return out


def rt_cond_event(i, t):
    import valida.conditions as vc

    e = blank(i, "rt_cond")
    e["rcond"] = ruledrv.enc_tree_r(t)
    obj = ruledrv.build_cond(t)
    out, js = outcome_of(lambda: obj.to_json_like())
    e["outcome"] = out
    if js is None and out == "ok":
        js = None
    if out != "ok":
        e["exc"] = out
        return e
    try:
        e["js"] = enc_val(js)
    except Unencodable:
        e["js"] = V("unencodable")       # e.g. a DataPath object left in the output: not JSON
    e["json_ok"], back = json_roundtrip(js)
    if not e["json_ok"]:
        return e
    out2, rb = outcome_of(lambda: vc.ConditionLike.from_json_like(back))
    e["outcome_rb"] = out2
    if rb is None:
        return e
    e["eq"], e["eq_rev"] = bool(obj == rb), bool(rb == obj)
    e["proj_rb"] = enc_cond(rb)
    e["behaves_same"] = cond_behaviour(obj) == cond_behaviour(rb)
    out3, js2 = outcome_of(lambda: rb.to_json_like())
    e["js2_ok"] = out3 == "ok"
    if out3 == "ok":
        try:
            e["js2"] = enc_val(js2)
        except Unencodable:
            e["js2"] = V("unencodable")
    return e


def path_behaviour(p, probes):
    """what the path selects (values with concrete paths), whatever the shape of the answer"""
    def sel(d):
        out = p.get_data(d, return_paths=True)
        if p.is_concrete:
            out = [] if out is None else [out]
        return enc_val(list(out))
    return [outcome_of(lambda: sel(d)) for d in probes]


def rt_path_event(i, rparts, via_specs, rng, probes):
    import valida.datapath as dp

    e = blank(i, "rt_path")
    e["rparts"] = [enc_rpart(p) for p in rparts]
    e["from_specs"] = bool(via_specs)
    e["probes"] = [enc_val(d) for d in probes]
    if via_specs:
        specs = [gd.spell_part(rng, p) for p in rparts]
        obj = dp.DataPath.from_part_specs(*specs)
    else:
        obj = dp.DataPath(*[gen.build_part(p) for p in rparts])
    # the two public serialisers of a path (to_json_like is documented as the same part specs)
    import zlib
    via_jl = zlib.crc32(repr(e["rparts"]).encode()) % 3 == 0      # (by recipe, so that a replay takes the same route)
    out, js = outcome_of((lambda: obj.to_json_like()) if via_jl else (lambda: obj.to_part_specs()))
    e["outcome"] = out
    if out != "ok":
        e["exc"] = out
        return e
    try:
        e["js"] = enc_val(js)
    except Unencodable:
        e["js"] = V("unencodable")
    e["json_ok"], back = json_roundtrip(js)
    if not e["json_ok"]:
        return e
    out2, rb = outcome_of(lambda: dp.DataPath.from_part_specs(*back))
    e["outcome_rb"] = out2
    if rb is None:
        return e
    e["eq"], e["eq_rev"] = bool(obj == rb), bool(rb == obj)
    e["ppath_rb"] = enc_path(rb)
    e["behaves_same"] = path_behaviour(obj, probes) == path_behaviour(rb, probes)
    return e


def rule_behaviour(r, probes):
    out = []
    for d in probes:
        def one():
            t = r.test(d)
            return (bool(t.is_valid), bool(t.tested), [(enc_val(f.value), enc_val(tuple(f.path))) for f in t.failures],
                    enc_val(t.data.get_original()))
        out.append(outcome_of(one))
    return out


def schema_behaviour(s, probes):
    out = []
    for d in probes:
        def one():
            v = s.validate(d)
            return (bool(v.is_valid), int(v.num_failures), int(v.num_rules_tested),
                    [[(enc_val(f.value), enc_val(tuple(f.path))) for f in t.failures] for t in v.rule_tests],
                    enc_val(v.cast_data))
        out.append(outcome_of(one))
    return out


CAST_PROBES = [{"a": "true", "b": ["3", "x3", 7], 1: "3"}, ["true", "3", "x3", 0], {"a": {"a": "FALSE", "b": " 7 "}, "b": "1_0"}]


def rt_rule_event(i, rr):
    import valida

    e = blank(i, "rt_rule")
    e["rule"] = ruledrv.enc_rule_recipe(rr)
    obj = ruledrv.build_rule(rr)
    klass = valida.Rule
    import zlib
    if zlib.crc32(repr(e["rule"]).encode()) % 5 == 0:      # (by recipe, so that a replay takes the same route)
        # a user's subclass of Rule that adds nothing is a rule all the same: it serialises as one, and its own
        # from_json_like gives back an equal object of that class
        klass = type("ProjectRule", (valida.Rule,), {})
        obj = klass(path=obj.path, condition=obj.condition, cast=obj.cast)
    out, js = outcome_of(lambda: obj.to_json_like())
    e["outcome"] = out
    if out != "ok":
        e["exc"] = out
        return e
    try:
        e["js"] = enc_val(js)
    except Unencodable:
        e["js"] = V("unencodable")
    e["json_ok"], back = json_roundtrip(js)
    if not e["json_ok"]:
        return e
    out2, rb = outcome_of(lambda: klass.from_json_like(back))
    e["outcome_rb"] = out2
    if rb is None:
        return e
    e["eq"], e["eq_rev"] = bool(obj == rb), bool(rb == obj)
    e["prule_rb"] = enc_rule(rb)
    pr = PROBES + CAST_PROBES
    e["behaves_same"] = rule_behaviour(obj, pr) == rule_behaviour(rb, pr)
    # equality must not depend on the objects having been used
    e["eq"], e["eq_rev"] = e["eq"] and bool(obj == rb), e["eq_rev"] and bool(rb == obj)
    return e


def rt_schema_event(i, rrs):
    import valida

    e = blank(i, "rt_schema")
    e["rules"] = [ruledrv.enc_rule_recipe(rr) for rr in rrs]
    obj = valida.Schema([ruledrv.build_rule(rr) for rr in rrs])
    out, js = outcome_of(lambda: obj.to_json_like())
    e["outcome"] = out
    if out != "ok":
        e["exc"] = out
        return e
    try:
        e["js"] = enc_val(js)
    except Unencodable:
        e["js"] = V("unencodable")
    # the keyword form of the JSON-like protocol (`shared_data=`) hands the shared data back next to the same JSON
    sd = {"k": 1}
    outk, resk = outcome_of(lambda: obj.to_json_like(shared_data=sd))
    jsk = resk[0] if isinstance(resk, tuple) and len(resk) == 2 else resk
    e["kw_same"] = outk == "ok" and doc_snap_noid(jsk) == doc_snap_noid(js) and \
        (not isinstance(resk, tuple) or resk[1] is sd) and sd == {"k": 1}
    # what was written for a schema stays true of it: a later add_schema on ANOTHER holder of the same rules (a shallow
    # copy) does not change this schema
    import copy as _copy
    other = _copy.copy(obj)
    outa, _ = outcome_of(lambda: other.add_schema(valida.Schema([valida.Rule(path=("zz",), condition=valida.Value.truthy())]),
                                                 valida.DataPath("q")))
    outj, js_again = outcome_of(lambda: obj.to_json_like())
    e["snapshot_ok"] = outa == "ok" and outj == "ok" and doc_snap_noid(js_again) == doc_snap_noid(js)
    e["json_ok"], back = json_roundtrip(js)
    if not e["json_ok"]:
        return e
    out2, rb = outcome_of(lambda: valida.Schema.from_json_like(back))
    e["outcome_rb"] = out2
    if rb is None:
        return e
    e["eq"], e["eq_rev"] = bool(obj == rb), bool(rb == obj)
    e["prules_rb"] = [enc_rule(r) for r in rb.rules]
    pr = PROBES + CAST_PROBES
    e["behaves_same"] = schema_behaviour(obj, pr) == schema_behaviour(rb, pr)
    # equality must not depend on the objects having been used (validated) before
    e["eq"], e["eq_rev"] = e["eq"] and bool(obj == rb), e["eq_rev"] and bool(rb == obj)
    rb2 = valida.Schema.from_json_like(back)
    e["eq"], e["eq_rev"] = e["eq"] and bool(obj == rb2), e["eq_rev"] and bool(rb2 == obj)
    return e


def judge(rep, events, recipes, keyf=None):
    res = tlc.accept("Trace_RoundTrip", "Trace_RoundTrip.cfg", events)
    rep.add_tlc(res, "B:Trace_RoundTrip")
    rep.traces += len(events)
    byid = {e["id"]: e for e in events}
    for m in res["mismatches"]:
        e = byid[m["id"]]
        key = keyf(m, e, recipes.get(m["id"])) if keyf else {"clause": m["clause"], "op": e["op"], "outcome": e["outcome"]}
        rep.reject(key, {"recipe": recipes.get(m["id"]), "event": e})
    return res


# ------------------------------------------------------------------ the C11 fragment
def c11_leaf(rng, doc=None):
    """leaf recipes of the meaningful DSL with JSON-like, type or data-path arguments"""
    datum, pre = rng.choice(gen.CLASSES)
    if pre == "dtype":
        fn = rng.choice(["equal_to", "not_equal_to", "in_", "not_in"])
        acts = [rng.sample(gen.TYPES, rng.randint(1, 3))] if fn in ("in_", "not_in") else [rng.choice(gen.TYPES)]
        return ("leaf", {"datum": datum, "pre": pre, "fn": fn, "actuals": acts, "akw": {}})
    if pre == "length":
        fn = rng.choice(["equal_to", "not_equal_to", "less_than", "greater_than", "less_than_or_equal_to",
                         "greater_than_or_equal_to", "in_", "not_in", "in_range", "not_in_range"])
        if fn in ("in_", "not_in"):
            acts, akw = [[rng.randint(0, 4) for _ in range(rng.randint(0, 3))]], {}
        elif fn in ("in_range", "not_in_range"):
            acts, akw = gen.leaf_args(rng, fn, pre, True)
        else:
            acts, akw = [rng.randint(0, 5)], {}
        return ("leaf", {"datum": datum, "pre": pre, "fn": fn, "actuals": acts, "akw": akw})
    rec = gd.spec_leaf_recipe(rng, [(datum, pre)])
    r = rng.random()
    if doc is not None and r < 0.25 and datum == "value":
        def spec_parts(rng_, doc_):
            ps = c10.spec_path_recipe(rng_, rng_.choice([1, 1, 2]))
            ps = [gen.prim_part(rng_, doc_) if isinstance(p, tuple) else p for p in ps]
            if rng_.random() < 0.3:
                # an explicit part that a primitive would NOT be coerced to (MapValue(1), ListValue(0), ...) next to a
                # part that can only be written as a full spec
                near = {"rk": "map", "key": ("prim", rng_.choice([1, 0, True, 2])), "index": None, "value": None, "cond": None, "label": None}
                if rng_.random() < 0.3:
                    near = {"rk": "list", "key": None, "index": ("prim", rng_.choice([0, 1])), "value": None, "cond": None, "label": None}
                other = {"rk": rng_.choice(["map", "list"]), "key": None, "index": None, "value": None, "cond": None, "label": None}
                ps = [near, other] if rng_.random() < 0.5 else [other, near]
            return ps
        c17.PARTS_GEN[0] = spec_parts
        try:
            return c17.cross_cond(rng, doc)
        finally:
            c17.PARTS_GEN[0] = None
    if r < 0.35 and rec["fn"] in gen.VALUE1:
        lit = rng.choice([{"path": ["a", 0]}, {"path.length": ["x"], "b": 1}, {"a": {"path": [1]}}, {"pathological": 1},
                          {"path": {"path": 1}}, {"path.x": {"path": [1]}, "b": {"path.first": ["a"]}},
                          {"a": {"path": {"path": ["z"]}}}, [{"path": ["a"]}, {"b": {"path": [2]}}], {"b": [{"path": ["a"]}]},
                          {"b": 1, "path": ["a"]}, {"mode": "x", "n": 2, "path.length": ["a", 0]}, {"a": {"b": 1, "path": [1]}},
                          [{"b": 1, "path.first": ["a"]}, 3]] + gen.PATHLIKE_EXTRA)
        rec = dict(rec, actuals=[lit], akw={})
    return ("leaf", rec)


def c11_tree(rng, depth, doc=None):
    if depth <= 0 or rng.random() < 0.4:
        return c11_leaf(rng, doc)
    op = rng.choice(["and", "or", "xor"])
    if rng.random() < 0.05:
        # both operands take multi-key literal mappings (whose keys may come back from JSON in another order)
        mk = lambda fn, m: ("leaf", {"datum": "value", "pre": "none", "fn": fn, "actuals": [m], "akw": {}})   # noqa: E731
        maps = [{"z": 1, "a": [1]}, {"name": "run", "count": 3}, {"b": None, "a": "x", "c": 2.5}, {"k": {"z": 1, "y": 2}, "a": 0}]
        m1, m2 = rng.sample(maps, 2)
        return (op, mk(rng.choice(["equal_to", "not_equal_to", "in_"]), m1), mk(rng.choice(["equal_to", "not_equal_to"]), m2))
    if rng.random() < 0.06:
        sub = c11_tree(rng, depth - 1, doc)
        return (rng.choice(["and", "or", "xor", "xor"]), sub, sub)     # ONE object as both operands (c ^ c)
    l, r = c11_tree(rng, depth - 1, doc), c11_tree(rng, depth - 1, doc)
    return (op, l, r)


def kinds_of(t):
    if t[0] == "leaf":
        return {t[1]["datum"]}
    if t[0] == "null":
        return set()
    return kinds_of(t[1]) | kinds_of(t[2])
