"""C05 - a rule is valid iff every node its path selects satisfies its condition.
Leg A: MC_Rule (every leaf of every tree shape sees the node value; every failing node has a reason; failures are
       the failing sub-sequence).  Leg B: exhaustive small universe + random (rule, document) pairs judged by Trace_Rule."""
import random

from harness import gen, tlc
from harness.common import to_lit
from harness.encode import Unencodable
from harness.props import ruledrv, pathdrv


def small_rules():
    paths, docs = pathdrv.small_universe()
    L = lambda fn, pre, *a: ("leaf", {"datum": "value", "pre": pre, "fn": fn, "actuals": list(a), "akw": {}})
    conds = [L("less_than", "none", 2), L("equal_to", "dtype", int), L("greater_than", "length", 0),
             ("and", L("greater_than", "none", 0), L("less_than", "none", 3)),
             ("or", L("equal_to", "none", 1), L("is_instance", "none", dict, list)),
             ("xor", L("truthy", "none"), L("is_instance", "none", int)),
             ("and", ("xor", L("truthy", "none"), L("less_than", "none", 5)), L("not_equal_to", "none", 2)),
             ("or", L("keys_contain", "none", "a"), ("and", L("has_factor", "none", 2), L("greater_than", "none", 0)))]
    return [p for p in paths if len(p) <= 2], docs, conds


def run(rep, tier, seed):
    a = tlc.model_check_sharded("MC_Rule", "MC_Rule.cfg")
    rep.add_tlc(a, "A:MC_Rule")
    if not a["ok"]:
        raise tlc.MachineryError("leg A: MC_Rule violated on the shipped specification\n" + a["out"][-2500:])
    n = tlc.model_check("MC_Rule", "MC_Rule_neg.cfg")
    if n["ok"]:
        raise tlc.MachineryError("leg A: negative configuration MC_Rule_neg.cfg was not rejected")
    rep.negative_cfgs.append("MC_Rule_neg.cfg (paths handed to the second child: EveryLeafSeesValue violated)")

    rng = random.Random(seed + 5)
    events, recipes = [], {}

    def add(rr, doc, entry):
        try:
            e = ruledrv.ruletest_event(len(events) + 1, rr, doc, entry)
        except Unencodable:
            rep.skipped_unencodable += 1
            return
        except (TypeError, ValueError):
            rep.extra["unconstructible"] = rep.extra.get("unconstructible", 0) + 1
            return
        events.append(e)
        recipes[e["id"]] = {"op": "ruletest", "rule": ruledrv.lit_rule(rr), "doc": to_lit(doc), "entry": entry}
        rep.note_case(repr((rr, doc, entry)), nontrivial=e["tested"] or e["outcome"] != "ok")

    paths, docs, conds = small_rules()
    k = 0
    for pi, rparts in enumerate(paths):
        for di, doc in enumerate(docs):
            cs = conds if tier != "quick" else [conds[(pi + di) % len(conds)], conds[(pi * 3 + di + 1) % len(conds)]]
            for c in cs:
                k += 1
                add({"rparts": rparts, "cond": c, "cast": None}, doc, "raw" if k % 3 else "Data")
    for _ in range(2500 if tier == "quick" else 80000):
        doc = gen.document(rng, depth=rng.choice([2, 3, 3, 4]), strish=0.65)
        if rng.random() < 0.12:
            # several selected nodes that are == but of different type, under a type-sensitive condition
            tw = gen.twins(rng)
            L = lambda fn, pre, *a: ("leaf", {"datum": "value", "pre": pre, "fn": fn, "actuals": list(a), "akw": {}})  # noqa: E731
            sens = [L("is_instance", "none", bool), L("is_instance", "none", float), L("is_instance", "none", int),
                    L("equal_to", "dtype", int), L("in_", "dtype", [bool, float]), L("not_equal_to", "dtype", bool)]
            cond = rng.choice(sens)
            if rng.random() < 0.4:
                cond = (rng.choice(["and", "or", "xor"]), cond, rng.choice(sens + [L("greater_than_or_equal_to", "none", 1)]))
            fan = {"rk": "list" if isinstance(tw, list) else "map", "key": None, "index": None, "value": None, "cond": None, "label": None}
            if rng.random() < 0.5:
                add({"rparts": [fan], "cond": cond, "cast": None}, tw, rng.choice(["raw", "Data"]))
            else:
                add({"rparts": [("prim", "flags"), fan], "cond": cond, "cast": None}, {"flags": tw, "n": 1}, "raw")
            continue
        if rng.random() < 0.03:
            # trees with SEVERAL xor nodes of which one fails because both its operands hold (its own row is then the only
            # source of a reason) while another one holds: every failing node still carries its reasons, row by row
            L = lambda fn, *a: ("leaf", {"datum": "value", "pre": "none", "fn": fn, "actuals": list(a), "akw": {}})  # noqa: E731
            both = ("xor", L("greater_than", 0), L("less_than", 10))          # false for 1..9
            one = ("xor", L("greater_than", 100), L("less_than", 10))         # true for 1..9
            neither = ("xor", L("greater_than", 100), L("less_than", 0))      # false for 1..9
            cond = rng.choice([("and", both, one), ("and", one, both), ("or", both, neither), ("xor", both, neither),
                               ("and", ("xor", both, one), both), ("or", neither, ("and", both, one)), ("xor", one, ("xor", both, one))])
            nodes = [rng.choice([5, 1, 9, 3]), rng.choice([50, -3, 200]), rng.choice([5, "a", None, 2.5])]
            rng.shuffle(nodes)
            fan = {"rk": "list", "key": None, "index": None, "value": None, "cond": None, "label": None}
            add({"rparts": [("prim", "t"), fan], "cond": cond, "cast": None}, {"t": nodes, "n": 1}, rng.choice(["raw", "Data"]))
            continue
        if rng.random() < 0.06:
            # tuple-typed arguments: a tuple is not == to the list with the same items, and isinstance takes (nested)
            # tuples of classes - the rule must judge with the argument exactly as cond.test does
            L = lambda fn, pre, *a: ("leaf", {"datum": "value", "pre": pre, "fn": fn, "actuals": list(a), "akw": {}})  # noqa: E731
            items = [rng.choice([1, 2, "a", 2.5]) for _ in range(rng.randint(1, 3))]
            cond = rng.choice([L("equal_to", "none", tuple(items)), L("not_equal_to", "none", tuple(items)),
                               L("in_", "none", [tuple(items), 0]), L("is_instance", "none", (int, float)),
                               L("is_instance", "none", str, (list, (int,))), L("in_", "none", tuple(items)),
                               L("equal_to", "none", [tuple(items)])])
            if rng.random() < 0.3:
                cond = (rng.choice(["and", "or", "xor"]), cond, ("leaf", gen.leaf_recipe(rng, kinds=[("value", "none")])))
            nodes = [list(items), items[0], [list(items)], "a", 2.5]
            rng.shuffle(nodes)
            fan = {"rk": "list", "key": None, "index": None, "value": None, "cond": None, "label": None}
            add({"rparts": [("prim", "t"), fan], "cond": cond, "cast": None}, {"t": nodes, "n": 1}, rng.choice(["raw", "Data"]))
            continue
        if rng.random() < 0.08:
            # conditions whose arguments are data paths into the same document (every callable, every argument position)
            from harness.props import c17
            rr = {"rparts": gen.path_recipe(rng, doc, maxlen=2), "cond": c17.cross_cond(rng, doc), "cast": None}
            if rng.random() < 0.6:
                doc, rr = c17.directed(rng, doc, rr)      # a node at which resolving the argument decides the verdict
            add(rr, doc, "raw")
            continue
        add(ruledrv.rule_recipe(rng, doc), doc, rng.choice(["raw", "Data"]))
    ruledrv.judge(rep, events, recipes, ruledrv.default_key)
    from harness import repotrace
    repotrace.judge(rep, "ruletest_proj", "Trace_Rule", lambda i: ruledrv.blank(i, "ruletest_proj"))
    for e in events[:: max(1, len(events) // 3)][:3]:
        rep.sample({"src": recipes[e["id"]], "outcome": e["outcome"], "valid": e["valid"], "nfail": e["nfail"]})
    rep.rule = (f"leg B: {len(paths)} small paths x {len(docs)} documents x condition trees (and/or/xor shapes) + seeded random "
                "rules (document-guided paths, value-kind trees incl. ill-typed arguments) on raw documents and Data; "
                "observing is_valid, tested, num_failures and per failure path/value/reasons; non-trivial = path selects "
                "something or the call raised")
    rep.extra["events"] = len(events)


replay = ruledrv.replay
