"""C07 - validation never raises because of what the document contains.
Leg A: MC_Schema_c07 (no rule step aborts; three negative configurations, one per as-coded deviation).
Leg B: well-typed, non-degenerate schemas (full callable set, with and without casts) on hostile documents
       (type-confused values, zeros, None, empty containers, castable and uncastable strings, nodes inside lists,
       keys of every type); clause NeverRaises plus the verdict clauses."""
import random

from harness import gen, tlc
from harness.common import to_lit
from harness.encode import Unencodable
from harness.props import ruledrv

NEG = [("MC_Schema_c07_catchall.cfg", "only TypeError/AttributeError caught in Condition._filter"),
       ("MC_Schema_c07_valueerror.cfg", "cast attempt catches only TypeError"),
       ("MC_Schema_c07_setdatum.cfg", "write-back indexes via the key condition of a map part")]


HOSTILE_KEYS = ["{}", "{x}", "{0}", "${LO}", "{", "}", "\\", "a.b", "a/b", "<k>", "'", '"', "[0]", "(", "#", "a\nb", " "]


def hostile_document(rng):
    if rng.random() < 0.5:
        doc = ruledrv.cast_document(rng, depth=3)
    else:
        doc = gen.document(rng, depth=rng.choice([2, 3, 4]), strish=0.5)
    if rng.random() < 0.15:
        # keys that look like templates / patterns / markup to whoever formats a message with them
        sub = {k: rng.choice([1, "3", "x", None]) for k in rng.sample(HOSTILE_KEYS, rng.randint(2, 4))}
        if isinstance(doc, dict):
            doc = dict(doc)
            k = rng.choice(["h", "a"])
            doc[k] = sub
        else:
            doc = list(doc) + [sub]
            k = len(doc) - 1
        gen._note_document(doc)
        HOSTILE_AT[0] = k
    else:
        HOSTILE_AT[0] = None
    return doc


HOSTILE_AT = [None]


def run(rep, tier, seed):
    a = tlc.model_check_sharded("MC_Schema", "MC_Schema_c07.cfg", nshards=4)
    rep.add_tlc(a, "A:MC_Schema_c07")
    if not a["ok"]:
        raise tlc.MachineryError("leg A: MC_Schema_c07 violated on the shipped specification\n" + a["out"][-2500:])
    for cfg, what in NEG:
        n = tlc.model_check("MC_Schema", cfg)
        if n["ok"]:
            raise tlc.MachineryError(f"leg A: negative configuration {cfg} was not rejected")
        rep.negative_cfgs.append(f"{cfg} ({what})")
    rng = random.Random(seed + 7)
    events, recipes = [], {}
    ruledrv.VIA_SPEC[0] = random.Random(seed + 107)      # some rules are built from their spec (cast names -> cast table)
    for s in range(4500 if tier == "quick" else 60000):
        doc = hostile_document(rng)
        n = rng.choice([1, 1, 2, 2, 3])
        rrs = [ruledrv.rule_recipe(rng, doc, well_typed=True, cast_p=0.4, maxlen=3) for _ in range(n)]
        if HOSTILE_AT[0] is not None and rng.random() < 0.6:
            # an argument path that matches ALL the hostile keys at once, with .single() / .first() / .all(): the message
            # of the refusal is built from those keys
            from harness.props.ruledrv import PathArg
            fan = {"rk": "map", "key": None, "index": None, "value": None, "cond": None, "label": None}
            pa = PathArg([("prim", HOSTILE_AT[0]), fan], rng.choice(["none", "none", "length"]), rng.choice(["single", "single", "first", "all"]))
            rrs.append({"rparts": gen.path_recipe(rng, doc, maxlen=2), "cast": None,
                        "cond": ("leaf", {"datum": "value", "pre": "none", "fn": rng.choice(["equal_to", "in_", "not_equal_to"]),
                                          "actuals": [pa], "akw": {}})})
        if rng.random() < 0.04:
            # a declared cast over nodes holding strings that only SOME conversion accepts ("inf", "1e999", "1e3", "2.0",
            # "nan"): what cannot be cast is left as it is; nothing is raised
            vals = rng.sample(["inf", "Infinity", "-inf", "1e999", "1e3", "nan", "2.0", "3", "x", 4, None], rng.randint(2, 5))
            doc = {"f": vals, "n": 1} if rng.random() < 0.5 else {"f": {("k%d" % j): v for j, v in enumerate(vals)}, "n": 1}
            fan = {"rk": "list" if isinstance(doc["f"], list) else "map", "key": None, "index": None, "value": None, "cond": None, "label": None}
            rrs = [{"rparts": [("prim", "f"), fan], "cast": rng.choice(["int", "int", "bool"]),
                    "cond": ("leaf", {"datum": "value", "pre": "dtype", "fn": "equal_to", "actuals": [int], "akw": {}})}] + rrs[:1]
        if rng.random() < 0.12:
            # arguments that are data paths into the same document (also .single() / .first() paths that match several
            # nodes or none): whatever they resolve to - or fail to - the node fails, validation does not raise
            from harness.props import c17
            j = rng.randrange(len(rrs))
            rrs[j] = dict(rrs[j], cond=c17.cross_cond(rng, doc))
        sub = rng.random() < 0.04 and "dtype" not in repr(rrs)
        if sub:
            doc = gen.subclassify(doc)       # OrderedDict / list-subclass documents are documents all the same
        try:
            if rng.random() < 0.5:
                e = ruledrv.validate_event(len(events) + 1, rrs, doc, as_data=rng.random() < 0.3)
                rec = {"op": "validate", "rules": [ruledrv.lit_rule(r) for r in rrs], "doc": to_lit(doc)}
            else:
                e = ruledrv.ruletest_event(len(events) + 1, rrs[0], doc, rng.choice(["raw", "Data"]))
                rec = {"op": "ruletest", "rule": ruledrv.lit_rule(rrs[0]), "doc": to_lit(doc), "entry": e["entry"]}
        except Unencodable:
            rep.skipped_unencodable += 1
            continue
        except (TypeError, ValueError):
            continue
        events.append(e)
        rec["sub"] = sub
        recipes[e["id"]] = rec
        rep.note_case(repr((rrs, doc, e["op"])), nontrivial=e["outcome"] != "ok" or e["nfail"] > 0 or e["ntested"] > 0 or e["tested"])
    ruledrv.VIA_SPEC[0] = None
    ruledrv.judge(rep, events, recipes, ruledrv.default_key)
    for e in events[:: max(1, len(events) // 2)][:2]:
        rep.sample({"src": recipes[e["id"]], "outcome": e["outcome"]})
    rep.rule = ("leg B: seeded schemas of 1..3 value-kind rules over the full callable set with well-typed non-degenerate "
                "arguments, 40% with str->bool / str->int casts, on hostile documents; Schema.validate and Rule.test "
                "(raw and Data); non-trivial = a rule was tested, failed, or the call raised")
    rep.extra["events"] = len(events)


replay = ruledrv.replay
