"""C11 - conditions survive the JSON-like round trip.
Leg A: MC_Grammar RoundTrip (serialise -> parse -> serialise on the model: JSON, equal, fixed point; the un-escaped
       variant is rejected).  Leg B: seeded conditions of the C11 fragment (all callables on value/key/index, length with
       numeric comparisons, dtype with equality/membership, JSON-like / type / data-path arguments incl. path-looking
       literal mappings, nested combinations) serialised by the real to_json_like, pushed through real JSON text, rebuilt
       by from_json_like; TLC judges the emitted JSON with its own parser against the original term."""
import random

from harness import gen, tlc
from harness.common import to_lit
from harness.encode import Unencodable
from harness.props import rtdrv, ruledrv, c10, c17


def run(rep, tier, seed):
    a = tlc.model_check_sharded("MC_Grammar", "MC_Grammar.cfg", nshards=8)
    rep.add_tlc(a, "A:MC_Grammar")
    if not a["ok"]:
        raise tlc.MachineryError("leg A: MC_Grammar violated on the shipped specification\n" + a["out"][-2500:])
    n = tlc.model_check("MC_Grammar", "MC_Grammar_noescape.cfg")
    if n["ok"]:
        raise tlc.MachineryError("leg A: negative configuration MC_Grammar_noescape.cfg was not rejected")
    rep.negative_cfgs.append("MC_Grammar_noescape.cfg (literal mappings with path-like keys serialised without escaping)")
    rng = random.Random(seed + 11)
    events, recipes = [], {}
    for _ in range(6000 if tier == "quick" else 80000):
        doc = gen.document(rng, depth=2, strish=0.8)
        t = rtdrv.c11_tree(rng, rng.choice([0, 0, 1, 2, 3]), doc)
        if rng.random() < 0.05:
            # a data-path argument through a map-or-list part that has list_condition / map_condition of its own
            c17.PARTS_GEN[0] = lambda rng_, doc_: [c10.mol_slots_part(rng_)] if rng_.random() < 0.6 else \
                [gen.prim_part(rng_, doc_), c10.mol_slots_part(rng_)]
            try:
                t = c17.cross_cond(rng, doc)
            finally:
                c17.PARTS_GEN[0] = None
        ks = rtdrv.kinds_of(t)
        if "key" in ks and "index" in ks:
            continue
        try:
            e = rtdrv.rt_cond_event(len(events) + 1, t)
        except Unencodable:
            rep.skipped_unencodable += 1
            continue
        except (TypeError, ValueError):
            continue
        events.append(e)
        recipes[e["id"]] = {"op": "rt_cond", "tree": ruledrv.lit_rule({"rparts": [], "cond": t, "cast": None})["cond"]}
        rep.note_case(repr(recipes[e["id"]]))

    def keyf(m, e, r):
        k = {"clause": m["clause"], "op": e["op"], "outcome": e["outcome"]}
        return k

    rtdrv.judge(rep, events, recipes, keyf)
    for e in events[:: max(1, len(events) // 3)][:3]:
        rep.sample({"src": recipes[e["id"]], "outcome": e["outcome"], "js": e["js"]})
    rep.rule = ("seeded conditions of the C11 fragment, depth <= 3; observed: to_json_like outcome and output, real "
                "json.dumps/json.loads identity, from_json_like outcome, == both ways, projection of the rebuilt object, "
                "second serialisation, filter results on 6 probe documents; distinct by recipe")
    rep.extra["events"] = len(events)


def replay(rep, case):
    from harness.common import from_lit
    r = case["case"]["recipe"]
    t = ruledrv.unlit_rule({"rparts": [], "cond": r["tree"], "cast": None})["cond"]
    ev = [rtdrv.rt_cond_event(1, t)]
    res = tlc.accept("Trace_RoundTrip", "Trace_RoundTrip.cfg", ev, shards=1)
    rep.add_tlc(res, "B:Trace_RoundTrip(replay)")
    rep.traces += 1
    for m in res["mismatches"]:
        print("REPLAY mismatch:", m["clause"], ev[0]["outcome"])
        rep.reject({"clause": m["clause"], "op": "rt_cond", "outcome": ev[0]["outcome"]}, {"recipe": r, "event": ev[0]})
    rep.sample({"replayed": r})
