"""Shared driver of C03 / C04: path constructions and resolutions through every entry point."""
import random

from harness import gen, tlc
from harness.common import to_lit, from_lit
from harness.encode import enc_val, enc_path, Unencodable, V
from harness.recipes import enc_rpart
from harness.tracer import watch
from harness.props.c01 import outcome_of

ENTRIES = ["get_data_raw", "get_data_Data", "Data_get_path", "Data_get_parts", "bound"]
DTS = ["none", "dtype", "length", "map_keys", "map_values"]
MTS = ["none", "first", "last", "single", "all"]
NULLPATH = {"parts": [], "concrete": True, "dt": "none", "mt": "none"}


def blank(i):
    return {"id": i, "op": "get", "entry": "", "rparts": [], "dt": "none", "mt": "none", "proj": NULLPATH, "mods_pure": True,
            "doc": V("none"), "outcome": "", "res": V("none"), "outcomep": "", "resp": V("none"),
            "writes": [], "unchanged": True, "refusal_clean": True}


def apply_mods(p, dt, mt, order, pure=None):
    """apply the modifiers in the given order; pure (a one-element list) is set to False if applying a modifier
    changed the path it was applied to (every modifier must return a copy)"""
    fd = {"none": None, "dtype": "dtype", "length": "length", "map_keys": "map_keys", "map_values": "map_values"}[dt]
    fm = {"none": None, "first": "first", "last": "last", "single": "single", "all": "all"}[mt]
    seq = [fd, fm] if order == "dm" else [fm, fd]
    stages = [(p, enc_path(p))] if pure is not None else []
    for f in seq:
        if f:
            p = getattr(p, f)()
            if pure is not None:
                stages.append((p, enc_path(p)))
    if pure is not None:
        pure[0] = all(enc_path(o) == snap for o, snap in stages) and len({id(o) for o, _ in stages}) == len(stages)
    return p


def poke(doc, salt):
    """the CALLER edits its own document in place (identity of the top-level object kept): a scalar somewhere is
    replaced and a child is appended / added to some container; deterministic in `salt`"""
    rng = random.Random(salt)
    conts = []

    def walk(x, depth):
        if isinstance(x, (dict, list)) and depth < 6:
            conts.append(x)
            for v in (x.values() if isinstance(x, dict) else x):
                walk(v, depth + 1)
    walk(doc, 0)
    for c in rng.sample(conts, min(2, len(conts))):
        if isinstance(c, list):
            if c and rng.random() < 0.5:
                c[rng.randrange(len(c))] = rng.choice([0, 5, "zz", None, [1, 2], {"a": 1}])
            else:
                c.append(rng.choice([7, "a", [3], {"b": 2}]))
        else:
            ks = list(c)
            if ks and rng.random() < 0.5:
                c[rng.choice(ks)] = rng.choice([0, 5, "zz", None, [1, 2], {"a": 1}])
            else:
                c[rng.choice(["zz", "a", 0, "new"])] = rng.choice([7, "a", [3], {"b": 2}])


def get_event(i, rparts, dt, mt, order, doc, entry, edit=None):
    """edit (a salt): the path is built (bound to the document when entry is "bound") and queried once, THEN the caller
    edits the document in place, and the recorded calls are made on the same path object: what counts is the document
    as it is at the time of the call"""
    import valida
    import valida.datapath as dp

    e = blank(i)
    e.update(entry=entry, dt=dt, mt=mt)
    e["rparts"] = [enc_rpart(p) for p in rparts]
    e["doc"] = enc_val(doc)
    pure = [True]

    def construct():
        memo = {}
        ps = []
        for p in rparts:                   # one recipe OBJECT used twice in the path: one part object used twice
            if isinstance(p, dict):
                if id(p) not in memo:
                    memo[id(p)] = gen.build_part(p)
                ps.append(memo[id(p)])
            else:
                ps.append(gen.build_part(p))
        pa = dp.DataPath(*ps, source_data=doc) if entry == "bound" else dp.DataPath(*ps)
        return ps, apply_mods(pa, dt, mt, order, pure)

    out0, built = outcome_of(construct)
    if out0 in ("raised:TypeError", "raised:ValueError"):
        raise TypeError("unconstructible recipe")
    if out0 != "ok":
        e["outcome"] = e["outcomep"] = out0      # an internal error while building: judged as a raise
        return e
    parts, path = built
    e["proj"] = enc_path(path)
    e["mods_pure"] = bool(pure[0])

    held = []

    def the_data():
        # ONE Data object, kept by the caller and used for every call of this event
        if not held:
            held.append(valida.Data(doc))
        return held[0]

    def call(rp):
        if entry == "get_data_raw":
            return path.get_data(doc, return_paths=rp)
        if entry == "get_data_Data":
            return path.get_data(the_data(), return_paths=rp)
        if entry == "Data_get_path":
            return valida.Data(doc).get(path, return_paths=rp)
        if entry == "Data_get_parts":
            return valida.Data(doc).get(*parts, return_paths=rp)
        return path.get_data(return_paths=rp)

    if entry == "get_data_Data" and not rparts:
        # the whole document read through the held Data object: what comes back is the caller's to edit (a mapping is
        # rebuilt per call); a later call on the same Data object still reads the document
        o0, r0 = outcome_of(lambda: call(False))
        if isinstance(r0, dict) and r0 is not doc:
            r0["edited"] = 1
        elif isinstance(r0, list) and r0 is not doc and not any(r0 is v for v in (doc.values() if isinstance(doc, dict) else doc)):
            r0.append("edited")
    if edit is not None:
        outcome_of(lambda: call(True))
        poke(doc, edit)
        e["doc"] = enc_val(doc)
    with watch(objs=[path], docs=[doc]) as w:
        out, res = outcome_of(lambda: call(False))
        outp, resp = outcome_of(lambda: call(True))
    e["outcome"], e["outcomep"] = out, outp
    e["writes"] = w.writes
    e["unchanged"] = bool(w.objs_unchanged and w.docs_unchanged)
    if out == "ok":
        e["res"] = enc_val(res)
    if outp == "ok":
        e["resp"] = enc_val(resp)
    return e


def multi_concrete_event(i, rparts, mt):
    import valida.datapath as dp

    e = blank(i)
    e.update(op="multi_concrete", mt=mt)
    e["rparts"] = [enc_rpart(p) for p in rparts]
    parts = [gen.build_part(p) for p in rparts]
    out, _ = outcome_of(lambda: getattr(dp.DataPath(*parts), mt)())
    e["outcome"] = out
    # a REFUSED request leaves nothing behind: the refusal through the method, through the constructor argument and
    # through assignment to the property of a path that is kept and used again
    p = dp.DataPath(*parts)
    before = enc_path(p)
    MT = {"first": dp.DataPathMultiType.FIRST, "last": dp.DataPathMultiType.LAST, "single": dp.DataPathMultiType.SINGLE,
          "all": dp.DataPathMultiType.ALL}[mt]

    def assign():
        p.MULTI_TYPE = MT
    out2, _ = outcome_of(assign)
    out3, _ = outcome_of(lambda: dp.DataPath(*parts, multi_type=MT))
    probe = {"a": [1, 2], "b": 1, 0: "x", 1: [3]}
    same = enc_path(p) == before and outcome_of(lambda: enc_val(p.get_data(probe, return_paths=True))) == \
        outcome_of(lambda: enc_val(dp.DataPath(*parts).get_data(probe, return_paths=True)))
    # (the property says "refused": any raise is a refusal - the constructor route raises AttributeError on the pinned tree)
    e["refusal_clean"] = bool(out2 != "ok" and out3 != "ok" and same)
    return e


def long_fanout(rng):
    """a container of 9-14 children and a fan-out part that selects a FEW of them, at least one at position >= 8 and one
    below: the selection must come back in document order however the implementation collects it"""
    n = rng.randint(9, 14)
    vals = [rng.choice([0, 1, 2, 3, "a", "b", 2.5, None, True, "x3"]) if rng.random() < 0.5 else j * 10 for j in range(n)]
    L = lambda datum, fn, *a: ("leaf", {"datum": datum, "pre": "none", "fn": fn, "actuals": list(a), "akw": {}})   # noqa: E731
    pos = sorted(set([rng.randrange(0, 8), rng.randrange(8, n)] + [rng.randrange(n) for _ in range(rng.choice([0, 0, 1, 2]))]))
    as_list = rng.random() < 0.55
    if as_list:
        cont = list(vals)
        by = rng.choice(["index", "value"])
        if by == "index":
            part = {"rk": rng.choice(["list", "mol"]), "key": None, "index": L("index", "in_", pos), "value": None, "cond": None, "label": None}
        else:
            part = {"rk": rng.choice(["list", "mol"]), "key": None, "index": None, "value": L("value", "in_", [cont[q] for q in reversed(pos)]),
                    "cond": None, "label": None}
    else:
        keys = ["k%d" % j for j in range(n)]
        rng.shuffle(keys)
        cont = dict(zip(keys, vals))
        part = {"rk": rng.choice(["map", "mol"]), "key": L("key", "in_", [keys[q] for q in reversed(pos)]), "index": None, "value": None,
                "cond": None, "label": None}
    r = rng.random()
    if r < 0.4:
        return [part], cont
    if r < 0.7:
        return [("prim", "rows"), part], {"rows": cont, "n": 1}
    return [("prim", 1), part], [0, cont]


def confusable_matches(rng):
    """a fan-out that matches exactly the nodes whose concrete paths could be CONFUSED when rendered as text: keys that
    differ only in type ("1" / 1, "True" / True, "0" / 0 / 0.0-less), keys that contain the delimiter ("a/b" + "c" against
    "a" + "b/c"): they are different nodes, .single() must refuse them, every pair is reported with its own path"""
    r = rng.random()
    fan = lambda rk: {"rk": rk, "key": None, "index": None, "value": None, "cond": None, "label": None}   # noqa: E731
    if r < 0.5:
        k = rng.choice([1, 0, 2, True])
        cont = {str(k) if not isinstance(k, bool) else "True": rng.choice([5, "x"]), k: rng.choice([6, "y"])}
        if rng.random() < 0.5:
            cont = dict(reversed(list(cont.items())))
        return [fan(rng.choice(["map", "mol"]))], cont
    if r < 0.8:
        doc = {"a/b": {"c": 1}, "a": {"b/c": 2}}
        return [fan("map"), fan(rng.choice(["map", "mol"]))], doc
    doc = {"x": {"1": [1], 1: [2]}, "y": 0}
    return [("prim", "x"), fan("map"), ("prim", 0)], doc


def same_part_twice(rng):
    """a path in which ONE part object stands at two positions (the first and a later one), over a document nested deep
    enough for both: what a part selects does not depend on where else the same object is used"""
    fan = {"rk": rng.choice(["map", "mol", "list", "mol"]), "key": None, "index": None, "value": None, "cond": None, "label": None}
    leaf = lambda: rng.choice([1, "a", None, 2.5])      # noqa: E731
    if fan["rk"] in ("map",):
        doc = {"a": {"x": leaf(), "y": {"p": leaf()}}, "b": {"z": {"q": leaf(), "r": leaf()}}}
    elif fan["rk"] == "list":
        doc = [[leaf(), [leaf(), leaf()]], [[leaf()], leaf()]]
    else:
        doc = {"a": [leaf(), {"k": leaf()}], "b": {"c": [leaf(), leaf()]}}
    extra = rng.choice([[], [fan], [("prim", 0)], [("prim", "k")]])
    return [fan, fan] + extra, doc


def random_cases(rng, n, modifiers):
    for _ in range(n):
        if rng.random() < 0.02:
            rparts, doc = same_part_twice(rng)
            yield rparts, "none", "none", "dm", doc
            continue
        if modifiers and rng.random() < 0.03:
            rparts, doc = confusable_matches(rng)
            yield rparts, rng.choice(DTS[:3]), rng.choice(["single", "single", "first", "all", "none"]), rng.choice(["dm", "md"]), doc
            continue
        doc = gen.document(rng, depth=rng.choice([2, 3, 3, 4]), strish=0.65)
        rparts = gen.path_recipe(rng, doc)
        if rng.random() < 0.04:
            rparts, doc = long_fanout(rng)
        dt = mt = "none"
        order = "dm"
        if modifiers:
            dt = rng.choice(DTS)
            concrete = all(isinstance(p, tuple) for p in rparts)
            mt = "none" if concrete else rng.choice(MTS)
            order = rng.choice(["dm", "md"])
        if rng.random() < 0.05 and dt != "dtype" and "dtype" not in repr(rparts):
            doc = gen.subclassify(doc)           # containers of a subclass type are containers all the same
        yield rparts, dt, mt, order, doc


def retyped_twin(rparts):
    """the same primitive path with every numeric primitive given in another type that is == to it (1 <-> 1.0 <-> True);
    None when there is nothing to retype"""
    out, changed = [], False
    for p in rparts:
        if isinstance(p, tuple) and p[0] == "prim" and isinstance(p[1], (bool, int, float)):
            v = p[1]
            if isinstance(v, bool):
                w = int(v)
            elif isinstance(v, int):
                w = float(v)
            else:
                w = int(v) if v == int(v) else v
            changed = changed or (type(w) is not type(v))
            out.append(("prim", w))
        else:
            out.append(p)
    return out if changed else None


def small_universe():
    """every path of length <= 2 over a part pool x a document pool (quick exhaustive tier)"""
    A = ("prim", "a")
    pool = [A, ("prim", 0), ("prim", 1.5), ("prim", True),
            {"rk": "map", "key": None, "index": None, "value": None, "cond": None, "label": None},
            {"rk": "list", "key": None, "index": None, "value": None, "cond": None, "label": None},
            {"rk": "mol", "key": None, "index": None, "value": None, "cond": None, "label": None},
            {"rk": "map", "key": ("leaf", {"datum": "key", "pre": "none", "fn": "in_", "actuals": [["a", "b", 1]], "akw": {}}),
             "index": None, "value": None, "cond": None, "label": None},
            {"rk": "list", "key": None, "index": ("leaf", {"datum": "index", "pre": "none", "fn": "greater_than", "actuals": [0], "akw": {}}),
             "value": None, "cond": None, "label": None},
            {"rk": "map", "key": None, "index": None,
             "value": ("leaf", {"datum": "value", "pre": "dtype", "fn": "equal_to", "actuals": [int], "akw": {}}),
             "cond": None, "label": None},
            {"rk": "mol", "key": ("prim", "a"), "index": ("prim", 1), "value": None, "cond": None, "label": None},
            {"rk": "mol", "key": None, "index": None,
             "value": ("and", ("leaf", {"datum": "value", "pre": "none", "fn": "greater_than", "actuals": [0], "akw": {}}),
                       ("leaf", {"datum": "value", "pre": "none", "fn": "less_than", "actuals": [3], "akw": {}})),
             "cond": None, "label": None}]
    docs = [{"a": {"a": 1, "b": [1, 2]}, "b": [0, {"a": 2}], 1: "x"},
            [{"a": 1}, [1, 2, 3], "s", {}],
            {"a": [], 1.5: {"a": 0}, True: [5, 6]},
            [[{"a": 1}], {"a": [1]}, 2],
            {0: {0: "z"}, "a": None},
            [0, 1]]
    paths = [[]] + [[p] for p in pool] + [[p, q] for p in pool for q in pool]
    return paths, docs


def run_path_check(rep, tier, seed, modifiers, label):
    events, recipes = [], {}
    rng = random.Random(seed + (4 if modifiers else 3))

    _in_twin = [False]

    def add(rparts, dt, mt, order, doc, entries):
        for entry in entries:
            if entry == "Data_get_parts" and (dt != "none" or mt != "none"):
                continue
            edit = None
            if entry in ("bound", "get_data_raw") and not _in_twin[0] and rng.random() < (0.5 if entry == "bound" else 0.1):
                import copy as _copy
                edit = rng.randrange(10 ** 6)
                doc = _copy.deepcopy(doc)           # this event owns (and edits) its document
            doc_before = to_lit(doc)
            try:
                e = get_event(len(events) + 1, rparts, dt, mt, order, doc, entry, edit=edit)
            except Unencodable:
                rep.skipped_unencodable += 1
                continue
            except (TypeError, ValueError) as ex:
                # recipe not constructible (e.g. key/index mix inside one condition): not a resolution case
                rep.extra["unconstructible"] = rep.extra.get("unconstructible", 0) + 1
                return
            events.append(e)
            recipes[e["id"]] = {"rparts": to_lit(rparts), "dt": dt, "mt": mt, "order": order, "doc": doc_before, "edit": edit, "sub": isinstance(doc, (gen.ListSub, __import__("collections").OrderedDict)),
                                "entry": entry}
            twin = retyped_twin(rparts) if not _in_twin[0] else None
            if twin is not None and entry in ("Data_get_parts", "get_data_raw", "Data_get_path"):
                # the ==-but-differently-typed path straight afterwards in the same process, and the first one again
                _in_twin[0] = True
                try:
                    add(twin, dt, mt, order, doc, [entry])
                    add(rparts, dt, mt, order, doc, [entry])
                finally:
                    _in_twin[0] = False
            nontriv = e["outcome"] != "ok" or (e["res"]["k"] == "list" and len(e["res"]["xs"]) > 0) or \
                (e["res"]["k"] not in ("list", "none"))
            rep.note_case(repr((rparts, dt, mt, order, doc, entry)), nontrivial=nontriv)

    paths, docs = small_universe()
    if not modifiers:
        for pi, rparts in enumerate(paths):
            for di, doc in enumerate(docs):
                ent = ENTRIES if (tier != "quick" or (pi + di) % 5 == 0) else [ENTRIES[(pi + di) % 5]]
                add(rparts, "none", "none", "dm", doc, ent)
    else:
        for pi, rparts in enumerate(paths):
            concrete = all(isinstance(p, tuple) for p in rparts)
            for di, doc in enumerate(docs):
                combos = [(dt, mt) for dt in DTS for mt in (["none"] if concrete else MTS)]
                if tier == "quick":
                    combos = [combos[(pi * 7 + di * 3 + k) % len(combos)] for k in range(2)]
                for k, (dt, mt) in enumerate(combos):
                    add(rparts, dt, mt, "dm" if (pi + di + k) % 2 else "md", doc, ["get_data_raw"])
            if concrete and rparts:
                for mt in MTS[1:]:
                    try:
                        e = multi_concrete_event(len(events) + 1, rparts, mt)
                    except Unencodable:
                        continue
                    events.append(e)
                    recipes[e["id"]] = {"rparts": to_lit(rparts), "mt": mt, "multi_concrete": True}
                    rep.note_case(repr(("mc", rparts, mt)))
    nrand = (3000 if tier == "quick" else 80000)
    for rparts, dt, mt, order, doc in random_cases(rng, nrand, modifiers):
        ent = [rng.choice(ENTRIES)] if tier == "quick" else rng.sample(ENTRIES, 2)
        if modifiers:
            ent = [e for e in ent if e != "Data_get_parts"] or ["get_data_raw"]
        add(rparts, dt, mt, order, doc, ent)
    res = tlc.accept("Trace_Path", "Trace_Path.cfg", events)
    rep.add_tlc(res, "B:Trace_Path")
    rep.traces += len(events)
    byid = {e["id"]: e for e in events}
    for m in res["mismatches"]:
        e = byid[m["id"]]
        r = recipes[m["id"]]
        kinds = sorted({(p[0] if isinstance(p, (list, tuple)) else p.get("rk")) for p in from_lit(r["rparts"])}, key=str)
        rep.reject({"clause": m["clause"], "entry": e["entry"], "outcome": e["outcome"], "dt": e["dt"], "mt": e["mt"]},
                   {"recipe": r, "event": e})
    for e in events[:: max(1, len(events) // 3)][:3]:
        rep.sample({"src": recipes[e["id"]], "outcome": e["outcome"], "res": e["res"]})
    rep.extra["events"] = len(events)
    return len(paths), len(docs)


def replay(rep, case):
    r = case["case"]["recipe"]
    rparts = from_lit(r["rparts"])
    rparts = [tuple(p) if isinstance(p, list) else p for p in rparts]
    if r.get("multi_concrete"):
        ev = [multi_concrete_event(1, rparts, r["mt"])]
    else:
        ev = [get_event(1, rparts, r["dt"], r["mt"], r["order"], gen.subclassify(from_lit(r["doc"])) if r.get("sub") else from_lit(r["doc"]), r["entry"],
                        edit=r.get("edit"))]
    res = tlc.accept("Trace_Path", "Trace_Path.cfg", ev, shards=1)
    rep.add_tlc(res, "B:Trace_Path(replay)")
    rep.traces += 1
    for m in res["mismatches"]:
        e = ev[0]
        print("REPLAY mismatch:", m["clause"], e["outcome"], e["res"])
        rep.reject({"clause": m["clause"], "entry": e["entry"], "outcome": e["outcome"], "dt": e["dt"], "mt": e["mt"]},
                   {"recipe": r, "event": e})
    rep.sample({"replayed": r})
