"""C17 - a data-path argument means the value at that path in the validated document.
Leg A: MC_Schema_c17 (per-evaluation resolution = substitution; negative: only top-level arguments resolved).
Leg B: random cross-referencing rules (path arguments positional / keyword / nested in list and mapping arguments;
       concrete and non-concrete; with modifiers) judged by Trace_Rule against Subst, and against the real verdict of the
       same rule with the resolved literal."""
import random

from harness import gen, tlc
from harness.common import to_lit
from harness.encode import Unencodable
from harness.props import ruledrv
from harness.props.ruledrv import PathArg


PARTS_GEN = [None]      # optional override: generator of the parts of path arguments (C11 uses spec-expressible parts)


def path_arg(rng, doc):
    if PARTS_GEN[0] is not None:
        rparts = PARTS_GEN[0](rng, doc)
    else:
        rparts = gen.path_recipe(rng, doc, maxlen=2, p_prim=0.75) or [gen.prim_part(rng, doc)]
    concrete = all(isinstance(p, tuple) for p in rparts)
    dt = rng.choice(["none", "none", "none", "length", "dtype", "map_keys"])
    mt = "none" if concrete else rng.choice(["none", "first", "last", "all", "single"])
    return PathArg(rparts, dt, mt)


def cross_cond(rng, doc):
    L = lambda fn, pre, acts, akw=None: ("leaf", {"datum": "value", "pre": pre, "fn": fn, "actuals": acts, "akw": akw or {}})
    p = path_arg(rng, doc)
    r = rng.random()
    if r < 0.25:
        return L(rng.choice(["equal_to", "less_than", "greater_than_or_equal_to", "not_equal_to"]), "none", [p])
    if r < 0.40:
        return L(rng.choice(["in_", "not_in"]), "none", [p])
    if r < 0.55:
        return L("in_", "none", [[p, rng.choice([1, "a", 7])]])                      # nested in a list argument
    if r < 0.65:
        return L("in_range", "none", [], {"lower": 0, "upper": p})                  # keyword
    if r < 0.72:
        return L("keys_contain", "none", [p])
    if r < 0.80:
        return L("required_keys", "none", [p, "a"])                                 # var-positional
    if r < 0.86:
        return L("items_contain", "none", [], {"a": p})                             # var-keyword
    if r < 0.92:
        return L("equal_to", "none", [{"a": p}])                                    # nested in a mapping argument
    if r < 0.96:
        return L("equal_to", "length", [p])
    return ("and", L("equal_to", "none", [p]), L("less_than", "none", [path_arg(rng, doc)]))


def literal_of(rr, doc):
    """the same rule with every path argument replaced by what the real get_data returns"""
    def res(p):
        return p.build().get_data(doc)
    return {"rparts": rr["rparts"], "cond": ruledrv.map_args(rr["cond"], lambda a: ruledrv.deep_map(a, res)), "cast": None}


def run(rep, tier, seed):
    a = tlc.model_check("MC_Schema", "MC_Schema_c17.cfg")
    rep.add_tlc(a, "A:MC_Schema_c17")
    if not a["ok"]:
        raise tlc.MachineryError("leg A: MC_Schema_c17 violated on the shipped specification\n" + a["out"][-2500:])
    n = tlc.model_check("MC_Schema", "MC_Schema_c17_toplevel.cfg")
    if n["ok"]:
        raise tlc.MachineryError("leg A: negative configuration MC_Schema_c17_toplevel.cfg was not rejected")
    rep.negative_cfgs.append("MC_Schema_c17_toplevel.cfg (path arguments nested in list/mapping arguments not resolved)")
    rng = random.Random(seed + 17)
    events, recipes = [], {}
    for s in range(2500 if tier == "quick" else 80000):
        doc = gen.document(rng, depth=rng.choice([2, 3, 3]), strish=0.75)
        rr = {"rparts": gen.path_recipe(rng, doc, maxlen=2), "cond": cross_cond(rng, doc), "cast": None}
        try:
            try:
                lit = literal_of(rr, doc)
            except Exception:
                lit = None
            e = ruledrv.ruletest_event(len(events) + 1, rr, doc, "raw", lit)
            rec = {"op": "ruletest", "rule": ruledrv.lit_rule(rr), "doc": to_lit(doc), "entry": "raw",
                   "lit": ruledrv.lit_rule(lit) if lit else None}
        except Unencodable:
            rep.skipped_unencodable += 1
            continue
        except (TypeError, ValueError):
            continue
        events.append(e)
        recipes[e["id"]] = rec
        rep.note_case(repr((rr, doc)), nontrivial=e["tested"] or e["outcome"] != "ok")
    ruledrv.judge(rep, events, recipes, ruledrv.default_key)
    for e in events[:: max(1, len(events) // 2)][:2]:
        rep.sample({"src": recipes[e["id"]], "outcome": e["outcome"], "valid": e["valid"]})
    rep.rule = ("leg B: seeded rules whose condition has 1-2 path-valued arguments (positional, keyword, var-positional, "
                "var-keyword, nested in list / mapping arguments; concrete and non-concrete; datum and multiplicity "
                "modifiers) on seeded documents; verdict compared with the specification's substitution and with the real "
                "verdict of the literal-substituted rule; non-trivial = rule tested or call raised")
    rep.extra["events"] = len(events)


replay = ruledrv.replay
