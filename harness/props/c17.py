"""C17 - a data-path argument means the value at that path in the validated document.
Leg A: MC_Schema_c17 (per-evaluation resolution = substitution; negative: only top-level arguments resolved).
Leg B: random cross-referencing rules (path arguments positional / keyword / nested in list and mapping arguments;
       concrete and non-concrete; with modifiers) judged by Trace_Rule against Subst, and against the real verdict of the
       same rule with the resolved literal."""
import random

from harness import gen, tlc
from harness.common import to_lit
from harness.encode import Unencodable
from harness.props import ruledrv
from harness.props.ruledrv import PathArg


PARTS_GEN = [None]      # optional override: generator of the parts of path arguments (C11 uses spec-expressible parts)


def path_arg(rng, doc):
    if PARTS_GEN[0] is not None:
        rparts = PARTS_GEN[0](rng, doc)
    else:
        rparts = gen.path_recipe(rng, doc, maxlen=2, p_prim=0.75) or [gen.prim_part(rng, doc)]
        if rng.random() < 0.07:
            rparts = []                  # the path with no parts: the document itself (its length, its type, its keys)
    concrete = all(isinstance(p, tuple) for p in rparts)
    dt = rng.choice(["none", "none", "none", "length", "dtype", "map_keys"])
    mt = "none" if concrete else rng.choice(["none", "first", "last", "all", "single"])
    return PathArg(rparts, dt, mt)


def cross_tree(rng, doc, depth):
    """a condition TREE (any shape: left-nested, right-nested, balanced; any operator) whose leaves are
    cross-referencing leaves or ordinary leaves - the position of a path argument in the tree must not matter"""
    if depth == 0 or rng.random() < 0.2:
        if rng.random() < 0.6:
            return cross_leaf(rng, doc)
        if PARTS_GEN[0] is not None:         # the spec-expressible fragment (JSON-able, well-typed arguments)
            from harness.props import grammardrv as gd
            return ("leaf", gd.spec_leaf_recipe(rng, [("value", "none"), ("value", "length")]))
        return ("leaf", gen.leaf_recipe(rng, kinds=[("value", "none"), ("value", "length")]))
    op = rng.choice(["and", "or", "xor", "and", "or"])
    return (op, cross_tree(rng, doc, depth - 1), cross_tree(rng, doc, depth - 1))


def cross_cond(rng, doc):
    if rng.random() < 0.12:
        return cross_tree(rng, doc, rng.choice([1, 2, 2, 3]))
    return cross_leaf(rng, doc)


def many_matches_arg(rng, doc):
    """a path argument with a multiplicity modifier whose fan-out part matches SEVERAL nodes of the document (or none):
    .single() then cannot give one value - the node under test fails, nothing raises"""
    conts = []

    def walk(x, pth, depth):
        if isinstance(x, (dict, list)) and depth < 4:
            if len(x) >= 2 and all(isinstance(k, (str, int, float, bool)) for k in pth):
                conts.append((pth, x))
            for k, v in (x.items() if isinstance(x, dict) else enumerate(x)):
                walk(v, pth + [k], depth + 1)
    walk(doc, [], 0)
    if not conts or PARTS_GEN[0] is not None:
        return None
    pth, node = rng.choice(conts)
    fan = {"rk": rng.choice(["map", "mol"]) if isinstance(node, dict) else rng.choice(["list", "mol"]),
           "key": None, "index": None, "value": None, "cond": None, "label": None}
    return PathArg([("prim", k) for k in pth] + [fan], rng.choice(["none", "none", "length"]), rng.choice(["single", "single", "first", "last", "all"]))


def cross_leaf(rng, doc):
    if rng.random() < 0.07:
        pm = many_matches_arg(rng, doc)
        if pm is not None:
            return ("leaf", {"datum": "value", "pre": "none", "fn": rng.choice(["equal_to", "not_equal_to", "in_", "less_than"]),
                             "actuals": [pm], "akw": {}})
    L = lambda fn, pre, acts, akw=None: ("leaf", {"datum": "value", "pre": pre, "fn": fn, "actuals": acts, "akw": akw or {}})
    p = path_arg(rng, doc)
    r = rng.random()
    if r < 0.25:
        return L(rng.choice(["equal_to", "less_than", "greater_than_or_equal_to", "not_equal_to"]), "none", [p])
    if r < 0.40:
        return L(rng.choice(["in_", "not_in"]), "none", [p])
    if r < 0.50:
        return L("in_", "none", [[p, rng.choice([1, "a", 7])]])                      # nested in a list argument
    if r < 0.55:
        if PARTS_GEN[0] is not None:         # JSON has no tuples
            return L("in_", "none", [[rng.choice([1, "a", 7]), p]])
        return L(rng.choice(["in_", "equal_to"]), "none", [(rng.choice([1, "a", 7]), p)])   # nested in a TUPLE argument
    if r < 0.65:
        return L("in_range", "none", [], {"lower": 0, "upper": p})                  # keyword
    if r < 0.72:
        return L("keys_contain", "none", [p])
    if r < 0.80:
        return L("required_keys", "none", [p, "a"])                                 # var-positional
    if r < 0.86:
        return L("items_contain", "none", [], {"a": p})                             # var-keyword
    if r < 0.92:
        return L("equal_to", "none", [{"a": p}])                                    # nested in a mapping argument
    if r < 0.94:
        return L("equal_to", "length", [p])
    if r < 0.985:
        # a LITERAL mapping whose key looks like a path spec (written with the escaped key in specs)
        return L(rng.choice(["equal_to", "not_equal_to", "in_"]), "none",
                 [rng.choice([{"path": ["a"]}, {"path.length": ["a", 0], "b": 1}, {"a": {"path": [1]}},
                              {"b": 1, "path": ["a"]}, {"mode": "x", "path.first": ["a"], "z": None}] + gen.PATHLIKE_EXTRA)])
    return (rng.choice(["and", "or", "xor"]), L("equal_to", "none", [p]), L("less_than", "none", [path_arg(rng, doc)]))


def directed(rng, doc, rr):
    """make the comparison meaningful: put, at a fresh node the rule selects, the value the condition's argument
    has AFTER substitution (or a member of it), so that resolving / not resolving a path argument changes the verdict"""
    t = rr["cond"]
    if t[0] != "leaf" or t[1]["fn"] not in ("equal_to", "not_equal_to", "in_", "not_in", "keys_contain", "required_keys", "items_contain"):
        return doc, rr
    try:
        lit = literal_of({"rparts": [], "cond": t, "cast": None}, doc)["cond"][1]
    except Exception:
        return doc, rr
    arg = (lit["actuals"] or list(lit["akw"].values()) or [None])[0]
    fn = t[1]["fn"]
    if fn in ("in_", "not_in"):
        if isinstance(arg, (list, tuple)) and arg:
            node = rng.choice(list(arg))
        elif isinstance(arg, dict) and arg:
            node = rng.choice(list(arg))
        else:
            return doc, rr
    elif fn in ("keys_contain", "required_keys"):
        ks = lit["actuals"]
        try:
            node = {k: 1 for k in ks}
        except TypeError:
            return doc, rr
    elif fn == "items_contain":
        node = dict(lit["akw"])
    else:
        node = arg
    import copy
    node = copy.deepcopy(node)
    if isinstance(doc, dict):
        doc = dict(doc)
        doc["t"] = node
        return doc, dict(rr, rparts=[("prim", "t")])
    doc = list(doc) + [node]
    return doc, dict(rr, rparts=[("prim", len(doc) - 1)])


def edit_in_place(rng, doc, rr):
    """the caller changes its own document between two validations: a nested scalar is replaced"""
    targets = []

    def walk(x, depth):
        if isinstance(x, dict):
            for k, v in x.items():
                if isinstance(v, (dict, list)):
                    walk(v, depth + 1)
                elif depth >= 1:
                    targets.append((x, k))
        elif isinstance(x, list):
            for j, v in enumerate(x):
                if isinstance(v, (dict, list)):
                    walk(v, depth + 1)
                elif depth >= 1:
                    targets.append((x, j))

    walk(doc, 0)
    for cont, k in (rng.sample(targets, min(3, len(targets))) if targets else []):
        old = cont[k]
        cont[k] = rng.choice([v for v in [0, 1, 5, "a", "zz", None, 2.5, True] if v != old or type(v) is not type(old)])


def spec_expressible(rr):
    """the rule can be written as a spec: JSON-able arguments only (path arguments at the depths from_spec inspects)"""
    import json

    def ok_val(v, depth=0):
        if isinstance(v, PathArg):
            return depth <= 1 and all(isinstance(p, tuple) for p in v.rparts)
        if isinstance(v, dict):
            return all(isinstance(k, str) for k in v) and all(ok_val(x, depth + 1) for x in v.values())
        if isinstance(v, (list, tuple)):      # (specs are python structures: tuples are fine there, unlike in JSON)
            return all(ok_val(x, depth + 1) for x in v)
        return v is None or isinstance(v, (bool, int, float, str))

    def ok_tree(t):
        if t[0] == "leaf":
            if t[1]["fn"] in ("is_instance", "keys_is_instance") or t[1]["pre"] == "dtype":
                return False          # in a spec a string in a type position NAMES a type: not the same condition
            return all(ok_val(a) for a in t[1]["actuals"]) and all(ok_val(a) for a in t[1]["akw"].values())
        if t[0] == "null":
            return True
        return ok_tree(t[1]) and ok_tree(t[2])

    return all(isinstance(p, tuple) for p in rr["rparts"]) and ok_tree(rr["cond"])


def has_tuple_arg(t):
    def tv(v):
        if isinstance(v, tuple):
            return True
        if isinstance(v, list):
            return any(tv(x) for x in v)
        if isinstance(v, dict):
            return any(tv(x) for x in v.values())
        return False
    if t[0] == "leaf":
        return any(tv(a) for a in t[1]["actuals"]) or any(tv(a) for a in t[1]["akw"].values())
    if t[0] == "null":
        return False
    return has_tuple_arg(t[1]) or has_tuple_arg(t[2])


def literal_of(rr, doc):
    """the same rule with every path argument replaced by what the real get_data returns"""
    def res(p):
        return p.build().get_data(doc)
    return {"rparts": rr["rparts"], "cond": ruledrv.map_args(rr["cond"], lambda a: ruledrv.deep_map(a, res)), "cast": None}


def run(rep, tier, seed):
    a = tlc.model_check("MC_Schema", "MC_Schema_c17.cfg")
    rep.add_tlc(a, "A:MC_Schema_c17")
    if not a["ok"]:
        raise tlc.MachineryError("leg A: MC_Schema_c17 violated on the shipped specification\n" + a["out"][-2500:])
    n = tlc.model_check("MC_Schema", "MC_Schema_c17_toplevel.cfg")
    if n["ok"]:
        raise tlc.MachineryError("leg A: negative configuration MC_Schema_c17_toplevel.cfg was not rejected")
    rep.negative_cfgs.append("MC_Schema_c17_toplevel.cfg (path arguments nested in list/mapping arguments not resolved)")
    rng = random.Random(seed + 17)
    events, recipes = [], {}
    for s in range(5000 if tier == "quick" else 80000):
        doc = gen.document(rng, depth=rng.choice([2, 3, 3]), strish=0.75)
        rr = {"rparts": gen.path_recipe(rng, doc, maxlen=2), "cond": cross_cond(rng, doc), "cast": None}
        if rng.random() < 0.45:
            doc, rr = directed(rng, doc, rr)
        try:
            try:
                lit = literal_of(rr, doc)
            except Exception:
                lit = None
            spec = None
            if rng.random() < 0.35 and spec_expressible(rr):
                from harness.props import grammardrv as gd
                spec = gd.spell_rule(rng, rr)         # path arguments as path specs, literal path-like keys escaped
                if rng.random() < 0.4 and not has_tuple_arg(rr["cond"]):
                    # (no tuple arguments: JSON has none) ... or the spec the LIBRARY writes for the API-built rule (its own escaping), through JSON text
                    import json
                    try:
                        spec = json.loads(json.dumps(ruledrv.build_rule(rr).to_json_like()))
                    except Exception:  # noqa
                        pass
            e = ruledrv.ruletest_event(len(events) + 1, rr, doc, "raw", lit, spec=spec)
            rec = {"op": "ruletest", "rule": ruledrv.lit_rule(rr), "doc": to_lit(doc), "entry": "raw",
                   "lit": ruledrv.lit_rule(lit) if lit else None, "via_spec": spec is not None}
        except Unencodable:
            rep.skipped_unencodable += 1
            continue
        except (TypeError, ValueError):
            continue
        events.append(e)
        recipes[e["id"]] = rec
        rep.note_case(repr((rr, doc)), nontrivial=e["tested"] or e["outcome"] != "ok")
        if rng.random() < 0.3:
            # the SAME rule object tests the document, the caller then edits the document in place where a path
            # argument points (below the top level), and the rule tests it again; then an ==-but-retyped copy
            shared = {}
            try:
                ruledrv.ruletest_event(0, rr, doc, "raw", shared=shared)
                edit_in_place(rng, doc, rr)
                e2 = ruledrv.ruletest_event(len(events) + 1, rr, doc, "raw", shared=shared)
                events.append(e2)
                recipes[e2["id"]] = {"op": "ruletest", "rule": ruledrv.lit_rule(rr), "doc": to_lit(doc), "entry": "raw",
                                     "note": "second test by the same Rule object after an in-place edit of the document"}
                d3 = ruledrv.retype(rng, doc, 0.8)
                e3 = ruledrv.ruletest_event(len(events) + 1, rr, d3, "raw", shared=shared)
                events.append(e3)
                recipes[e3["id"]] = {"op": "ruletest", "rule": ruledrv.lit_rule(rr), "doc": to_lit(d3), "entry": "raw",
                                     "note": "third test by the same Rule object on an ==-but-retyped document"}
            except (Unencodable, TypeError, ValueError):
                pass
    ruledrv.judge(rep, events, recipes, ruledrv.default_key)
    for e in events[:: max(1, len(events) // 2)][:2]:
        rep.sample({"src": recipes[e["id"]], "outcome": e["outcome"], "valid": e["valid"]})
    rep.rule = ("leg B: seeded rules whose condition has 1-2 path-valued arguments (positional, keyword, var-positional, "
                "var-keyword, nested in list / mapping arguments; concrete and non-concrete; datum and multiplicity "
                "modifiers) on seeded documents; verdict compared with the specification's substitution and with the real "
                "verdict of the literal-substituted rule; non-trivial = rule tested or call raised")
    rep.extra["events"] = len(events)


replay = ruledrv.replay
