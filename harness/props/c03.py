"""C03 - path resolution selects exactly the nodes a part-by-part walk reaches.
Leg A: MC_Path (mechanism = meaning, truthful, distinct on a TLA+ universe).
Leg B: exhaustive small universe + random (path, document) pairs through all five entry points, judged by Trace_Path."""
from harness import tlc
from harness.props import pathdrv


def run(rep, tier, seed):
    a = tlc.model_check_sharded("MC_Path", "MC_Path.cfg" if tier == "quick" else "MC_Path_3.cfg")
    rep.add_tlc(a, "A:MC_Path")
    if not a["ok"]:
        raise tlc.MachineryError("leg A: MC_Path violated on the shipped specification\n" + a["out"][-2500:])
    np_, nd = pathdrv.run_path_check(rep, tier, seed, modifiers=False, label="C03")
    from harness import repotrace

    def fill(i):
        b = pathdrv.blank(i)
        b.update(rp=False)
        return b
    repotrace.judge(rep, "get_proj", "Trace_Path", fill)
    rep.rule = (f"leg A: all paths of length <= 2 (3 thorough) over a TLA+ part pool x document universe; leg B: {np_} small "
                f"paths x {nd} documents through the five entry points + seeded document-guided random paths (<= 4 parts, "
                "arbitrary key/index/value condition trees, documents of depth <= 4 with str/int/float/bool/None keys); "
                "non-trivial = non-empty selection or a raise; distinct by (path recipe, document, entry)")


replay = pathdrv.replay
