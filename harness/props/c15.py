"""C15 - casts replace exactly the castable selected nodes in a private copy.
Leg A: MC_Schema_c15 (cast process: CastDataExact, JudgedOnCopy; negative WriteBackUncast).
Leg B: cast schemas over every path shape on documents with castable / uncastable strings: cast_data, per-rule
       verdicts on the copy, Rule.test(d).data."""
import random

from harness import gen, tlc
from harness.common import to_lit
from harness.encode import Unencodable
from harness.props import ruledrv

CAST_CONDS = None


def cast_rule(rng, doc):
    L = lambda fn, pre, *a: ("leaf", {"datum": "value", "pre": pre, "fn": fn, "actuals": list(a), "akw": {}})
    conds = [L("equal_to", "dtype", bool), L("equal_to", "dtype", int), L("greater_than", "none", 2),
             L("in_", "dtype", [bool, int]), L("truthy", "none"), L("equal_to", "none", True), L("is_instance", "none", str)]
    rr = {"rparts": gen.path_recipe(rng, doc, maxlen=3, p_prim=0.55), "cond": rng.choice(conds),
          "cast": rng.choice(["bool", "int", "int", None])}
    if rng.random() < 0.3:
        rr["cond"] = ruledrv.value_tree(rng, 1, well_typed=True)
    return rr


def dependent_casts(rng):
    """a document of records and two (or three) cast rules of which a later one SELECTS by a field an earlier one
    rewrites: casts are selected on the document as given, never on the copy being rewritten, whatever the rule order"""
    L = lambda fn, pre, *a, **kw: ("leaf", {"datum": "value", "pre": pre, "fn": fn, "actuals": list(a), "akw": kw})   # noqa: E731
    f, g = rng.sample(["a", "b", "c", "ab", "n"], 2)
    strs = ["3", "7", "true", "x3", " 7 ", "FALSE", "0"]
    recs = [{f: rng.choice(strs), g: rng.choice(strs)} for _ in range(rng.randint(2, 4))]
    if rng.random() < 0.5:
        doc, head, fan = {"rows": recs, "n": 1}, [("prim", "rows")], "list"
    else:
        doc = {"r%d" % j: r for j, r in enumerate(recs)}
        head, fan = [], "map"
    wanted = rng.choice(recs)[f]
    part = lambda cond: {"rk": fan, "key": None, "index": None, "value": cond, "cond": None, "label": None}   # noqa: E731
    sel = rng.choice([L("items_contain", "none", **{f: wanted}), L("keys_contain", "none", f)])
    first = {"rparts": head + [part(None), ("prim", f)], "cond": rng.choice([L("greater_than", "none", 2), L("truthy", "none")]),
             "cast": rng.choice(["int", "bool"])}
    second = {"rparts": head + [part(sel), ("prim", g)], "cond": rng.choice([L("less_than", "none", 5), L("equal_to", "dtype", int)]),
              "cast": rng.choice(["int", "bool"])}
    rules = [first, second]
    if rng.random() < 0.4:
        rules.append({"rparts": head + [part(L("items_contain", "none", **{g: rng.choice(recs)[g]})), ("prim", f)],
                      "cond": L("is_instance", "none", int), "cast": "int"})
    rng.shuffle(rules)
    return doc, rules


def run(rep, tier, seed):
    a = tlc.model_check_sharded("MC_Schema", "MC_Schema_c15.cfg")
    rep.add_tlc(a, "A:MC_Schema_c15")
    if not a["ok"]:
        raise tlc.MachineryError("leg A: MC_Schema_c15 violated on the shipped specification\n" + a["out"][-2500:])
    n = tlc.model_check("MC_Schema", "MC_Schema_c15_wbu.cfg")
    if n["ok"]:
        raise tlc.MachineryError("leg A: negative configuration MC_Schema_c15_wbu.cfg was not rejected")
    rep.negative_cfgs.append("MC_Schema_c15_wbu.cfg (a failed cast writes the original back over an earlier rule's cast)")
    rng = random.Random(seed + 15)
    events, recipes = [], {}
    ruledrv.VIA_SPEC[0] = random.Random(seed + 115)      # some rules are built from their spec (cast names -> cast table)
    for s in range(4000 if tier == "quick" else 60000):
        doc = ruledrv.cast_document(rng, depth=rng.choice([1, 2, 3]))
        k = rng.choice([1, 2, 2, 3])
        rrs = [cast_rule(rng, doc) for _ in range(k)]
        if k > 1 and rng.random() < 0.4:
            rrs[1] = dict(rrs[0], cast=rng.choice(["bool", "int"]))     # two rules on the same nodes
        dep = rng.random() < 0.06
        if dep:
            doc, rrs = dependent_casts(rng)
        try:
            if dep or rng.random() < 0.65:
                e = ruledrv.validate_event(len(events) + 1, rrs, doc, as_data=rng.random() < 0.3)
                rec = {"op": "validate", "rules": [ruledrv.lit_rule(r) for r in rrs], "doc": to_lit(doc)}
            else:
                e = ruledrv.ruletest_event(len(events) + 1, rrs[0], doc, rng.choice(["raw", "Data"]))
                rec = {"op": "ruletest", "rule": ruledrv.lit_rule(rrs[0]), "doc": to_lit(doc), "entry": e["entry"]}
        except Unencodable:
            rep.skipped_unencodable += 1
            continue
        except (TypeError, ValueError):
            continue
        events.append(e)
        recipes[e["id"]] = rec
        changed = e["outcome"] == "ok" and (e["cast_data"] != e["doc"] if e["op"] == "validate" else e["data"] != e["doc"])
        rep.note_case(repr((rrs, doc, e["op"])), nontrivial=changed or e["outcome"] != "ok")
    ruledrv.VIA_SPEC[0] = None
    ruledrv.judge(rep, events, recipes, ruledrv.default_key)
    for e in events[:: max(1, len(events) // 2)][:2]:
        rep.sample({"src": recipes[e["id"]], "outcome": e["outcome"], "cast_data": e["cast_data"]})
    rep.rule = ("leg B: seeded schemas of 1..3 rules with str->bool / str->int casts over document-guided paths (str/int/"
                "float/bool/None keys, list indices, fan-out parts, the empty path, same node cast by two rules) on "
                "documents with castable and uncastable strings; non-trivial = the copy differs from the input or the "
                "call raised")
    rep.extra["events"] = len(events)


replay = ruledrv.replay
