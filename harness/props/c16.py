"""C16 - parsing a spec does not change the spec; re-parsing gives the same object.
Leg A: MC_SpecStore (spec store with shared sub-structures: SpecUnchanged as an action property, Reparse; negative
       AsCoded_ParseConsumesSpec).  Leg C: its behaviours replayed on real dict / list objects that share sub-structures.
Leg B: every well-formed spec the C09 / C10 / C17 generators produce (casts, doc blocks, shorthand part forms, data-path
       arguments, escaped \\path keys) is snapshotted type-exactly, parsed twice and snapshotted after each parse; TLC
       judges SpecUnchangedByParsing / SecondParseSucceeds / SecondParseEqualsFirst."""
import copy
import random

from harness import gen, tlc
from harness.common import to_lit
from harness.encode import Unencodable, dec_val
from harness.tracer import doc_snap
from harness.props import grammardrv as gd, c10, c17, ruledrv
from harness.props.c01 import outcome_of


def cond_specs(rep, rng, n, events, recipes):
    for _ in range(n):
        t = gd.spec_tree_recipe(rng, depth=rng.choice([0, 1, 2]), kinds=gd.kinds_for(rng))
        if rng.random() < 0.45:
            # data-path arguments (top level, in list / mapping arguments) and escaped literal mappings
            doc = gen.document(rng, depth=2, strish=0.8)
            t = c17.cross_cond(rng, doc)
            if rng.random() < 0.3:
                lit = rng.choice([{"path": ["a", 0]}, {"path.length": ["x"], "b": 1}, {"a": {"path": [1]}},
                                  {"b": 1, "path": ["a"]}, {"mode": "x", "path.first": ["a"], "z": None}] + gen.PATHLIKE_EXTRA)
                t = ("leaf", {"datum": "value", "pre": "none", "fn": rng.choice(["equal_to", "in_", "not_equal_to"]),
                              "actuals": [lit], "akw": {}})
        try:
            spec = gd.spell_tree(rng, t)
            if spec is None:
                continue
            lit = to_lit(spec)
            e = gd.parse_event(len(events) + 1, "parse_cond", spec)
        except Unencodable:
            rep.skipped_unencodable += 1
            continue
        events.append(e)
        recipes[e["id"]] = {"op": "parse_cond", "spec": lit}
        rep.note_case(repr(lit))


def shared_schema_specs(rep, rng, n):
    """lists of rule specs in which several rules SHARE sub-structures (the same path sequence - list or tuple -, the
    same condition mapping, cast table or doc block: what YAML anchors / aliases or a program building specs in a loop
    produce), parsed through every schema-level entry point, twice; the caller's structures - the list, every rule
    mapping, every shared object - must be left type-exactly as they were (identity included), and the second parse
    must equal the first.  Python-side companion of SpecStore.tla's SpecUnchanged / Reparse for whole schemas."""
    import valida

    done = 0
    for _ in range(n):
        k = rng.choice([2, 2, 3, 4])
        rrs = [c10.spec_rule_recipe(rng) for _ in range(k)]
        try:
            specs = [gd.spell_rule(rng, rr, copy.deepcopy(rng.choice(gd.DOC_SHAPES))) for rr in rrs]
        except Unencodable:
            continue
        for sp in specs:
            if "cast" not in sp and rng.random() < 0.2:
                sp["cast"] = rng.choice([{}, {}, None])          # "no casts", written out
            if "doc" not in sp and rng.random() < 0.1:
                sp["doc"] = rng.choice([[], {}, None, ""])
        as_tuple = rng.random() < 0.5
        share = [[j, field] for j in range(1, len(specs)) for field in ("path", "condition", "cast", "doc")
                 if field in specs[0] and rng.random() < 0.45]
        plain = to_lit(copy.deepcopy(specs))
        entry = rng.choice(["init_rules", "from_json_like", "rule_by_rule"])
        done += 1
        rep.note_case(repr((plain, share, as_tuple, entry)))
        shared_case(rep, specs, share, as_tuple, entry, plain)
    rep.traces += done
    rep.evaluations += 2 * done
    return done


def shared_case(rep, specs, share, as_tuple, entry, plain):
    import valida

    src = specs[0]
    if as_tuple and isinstance(src.get("path"), list):
        src["path"] = tuple(src["path"])
    for j, field in share:
        specs[j][field] = src[field]               # the very same object
    if True:

        def parse():
            if entry == "init_rules":
                return valida.Schema(valida.Schema.init_rules(specs))
            if entry == "from_json_like":
                return valida.Schema.from_json_like(specs)
            return valida.Schema([valida.Rule.from_spec(sp) for sp in specs])

        before = doc_snap(specs)
        out1, s1 = outcome_of(parse)
        mid = doc_snap(specs)
        out2, s2 = outcome_of(parse)
        after = doc_snap(specs)
        case = {"kind": "shared_schema", "specs": plain, "share": share, "as_tuple": as_tuple, "entry": entry}
        if out1 != "ok" or out2 != "ok":
            if out1 != out2:
                rep.reject({"clause": "SecondParseSucceeds", "leg": "S", "entry": entry}, dict(case, detail=f"{out1} then {out2}"))
            return
        if mid != before or after != before:
            rep.reject({"clause": "SpecUnchangedByParsing", "leg": "S", "entry": entry}, dict(case, detail="a shared structure changed"))
        elif not (s1 == s2 and s2 == s1):
            rep.reject({"clause": "SecondParseEqualsFirst", "leg": "S", "entry": entry}, case)


# ---------------------------------------------------------------- leg C: shared sub-structures
def replay_store(rep, pool, beh):
    """pool: inner structures (abstract values); beh: sequence of parse calls [kind, i, j]"""
    store = [dec_val(v) for v in pool["store"]]
    snaps = [doc_snap(s) for s in store]
    first = {}
    for si, h in enumerate(beh["hist"], 1):
        kind, i, j = h["call"]
        if kind == "rule":
            spec = {"path": store[i - 1], "condition": {"value.equal_to": 1}, "cast": store[j - 1]}
            out, obj = outcome_of(lambda: gd.do_parse("parse_rule", spec))
        elif kind == "part":
            spec = store[i - 1][-1]
            out, obj = outcome_of(lambda: gd.do_parse("parse_part", spec))
        else:
            spec = {"value.in": store[i - 1]}
            out, obj = outcome_of(lambda: gd.do_parse("parse_cond", spec))
        if out != "ok":
            return ("SecondParseSucceeds" if (kind, i, j) in first else "WellFormedSpecAccepted", f"call {si} {h['call']}: {out}")
        if [doc_snap(s) for s in store] != snaps:
            return ("SpecUnchangedByParsing", f"call {si} {h['call']} changed a shared sub-structure")
        k = (kind, i, j)
        if k in first:
            if not (first[k] == obj and obj == first[k]):
                return ("SecondParseEqualsFirst", f"call {si} {h['call']}")
        else:
            first[k] = obj
    return None


def run(rep, tier, seed):
    gd.pollute()        # same-named custom callables have been used in this process before any spec is parsed
    a = tlc.model_check("SpecStore", "MC_SpecStore.cfg")
    rep.add_tlc(a, "A:MC_SpecStore")
    if not a["ok"]:
        raise tlc.MachineryError("leg A: MC_SpecStore violated on the shipped specification\n" + a["out"][-2500:])
    n = tlc.model_check("SpecStore", "MC_SpecStore_ascoded.cfg")
    if n["ok"]:
        raise tlc.MachineryError("leg A: negative configuration MC_SpecStore_ascoded.cfg was not rejected")
    rep.negative_cfgs.append("MC_SpecStore_ascoded.cfg (parsers consume / rewrite the caller's structures)")
    g = tlc.generate("Gen_SpecStore", "Gen_SpecStore.cfg", timeout=900)
    rep.add_tlc(g, "C:Gen_SpecStore")
    pools = [b for b in g["behaviours"] if b.get("kind") == "pool"]
    behs = [b for b in g["behaviours"] if b.get("kind") == "behaviour"]
    if not pools or not behs:
        raise tlc.MachineryError("Gen_SpecStore printed nothing")
    for b in behs:
        bad = replay_store(rep, pools[0], b)
        if bad:
            rep.reject({"clause": bad[0], "leg": "C"}, {"kind": "store", "pool": pools[0], "behaviour": b, "detail": bad[1]})
        rep.note_case(repr(b["hist"]))
    rep.traces += len(behs)
    kinds = {h["call"][0] for b in behs for h in b["hist"]}
    if not {"rule", "part", "cond"} <= kinds:
        raise tlc.MachineryError(f"vacuity: generated parse histories lack a parser: {kinds}")
    rep.extra["actions_taken"] = sorted(kinds)
    rep.sample({"behaviour": [h["call"] for h in behs[0]["hist"]]})

    rng = random.Random(seed + 16)
    events, recipes = [], {}
    k = 1 if tier == "quick" else 30
    cond_specs(rep, rng, 3000 * k, events, recipes)
    c10.make_events(rep, rng, 3000 * k, events, recipes, with_dsl=False)
    gd.judge(rep, events, recipes, "C16")
    rep.extra["shared_schema_specs"] = shared_schema_specs(rep, rng, 400 * k)
    for e in events[:: max(1, len(events) // 2)][:2]:
        rep.sample({"src": recipes[e["id"]], "outcome": e["outcome"], "outcome2": e["outcome2"], "eq12": e["eq12"]})
    rep.rule = (f"leg C: {len(behs)} TLC-generated parse histories over specs sharing sub-structures; leg B: seeded well-formed "
                "condition / part / path / rule / schema specs (casts, doc blocks, shorthands, data-path arguments at top "
                "level and inside list / mapping arguments, escaped \\\\path keys), each parsed twice with type-exact "
                "snapshots before and after; distinct by spec structure")
    rep.extra["events"] = len(events)


def replay(rep, case):
    c = case["case"]
    if c.get("kind") == "shared_schema":
        from harness.common import from_lit
        print("shared-structure schema case:", c.get("entry"), c.get("detail"))
        shared_case(rep, from_lit(c["specs"]), c["share"], c["as_tuple"], c["entry"], c["specs"])
        rep.states += 1
        rep.transitions += 1
        rep.traces += 1
        rep.sample({"recorded": c.get("entry")})
        return
    if c.get("kind") == "store":
        bad = replay_store(rep, c["pool"], c["behaviour"])
        if bad:
            print("REPLAY mismatch:", bad)
            rep.reject({"clause": bad[0], "leg": "C"}, c)
        rep.traces += 1
        rep.states += 1
        rep.transitions += 1
        rep.sample({"replayed": c["behaviour"]["hist"]})
        return
    gd.replay(rep, case, "C16")
