"""C13 - rules and schemas survive the JSON round trip, casts included.
Leg A: MC_GrammarPath RuleRoundTrip (rule specs with casts parse back to the rule; JSON).
Leg B: seeded rules / schemas (conditions of the C11 fragment, serialisable paths, with and without casts) serialised by
the real to_json_like, pushed through json.dumps / json.loads, rebuilt; TLC parses the emitted JSON with Grammar.tla."""
import random

from harness import gen, tlc
from harness.common import to_lit
from harness.encode import Unencodable
from harness.props import rtdrv, c10, ruledrv


def rule_recipe(rng):
    rr = c10.spec_rule_recipe(rng)
    if rng.random() < 0.3:
        # conditions of the whole C11 fragment: data-path arguments (concrete and not, with a datum and / or a
        # multiplicity modifier, nested in list / mapping arguments), literal path-like mappings
        doc = gen.document(rng, depth=3, strish=0.8)
        for _ in range(12):
            t = rtdrv.c11_tree(rng, rng.choice([0, 0, 1, 2]), doc)
            if rtdrv.kinds_of(t) <= {"value"}:
                rr = dict(rr, cond=t)
                break
    return rr


def run(rep, tier, seed):
    a = tlc.model_check_sharded("MC_GrammarPath", "MC_GrammarPath.cfg")
    rep.add_tlc(a, "A:MC_GrammarPath")
    if not a["ok"]:
        raise tlc.MachineryError("leg A: MC_GrammarPath violated on the shipped specification\n" + a["out"][-2500:])
    rng = random.Random(seed + 13)
    events, recipes = [], {}
    for _ in range(3000 if tier == "quick" else 50000):
        try:
            if rng.random() < 0.55:
                rr = rule_recipe(rng)
                e = rtdrv.rt_rule_event(len(events) + 1, rr)
                rec = {"op": "rt_rule", "rule": ruledrv.lit_rule(rr)}
            else:
                rrs = [rule_recipe(rng) for _ in range(rng.choice([0, 1, 2, 3]))]
                e = rtdrv.rt_schema_event(len(events) + 1, rrs)
                rec = {"op": "rt_schema", "rules": [ruledrv.lit_rule(r) for r in rrs]}
        except Unencodable:
            rep.skipped_unencodable += 1
            continue
        except (TypeError, ValueError):
            continue
        events.append(e)
        recipes[e["id"]] = rec
        rep.note_case(repr(rec))
    rtdrv.judge(rep, events, recipes)
    for e in events[:: max(1, len(events) // 3)][:3]:
        rep.sample({"src": recipes[e["id"]], "outcome": e["outcome"], "js": e["js"]})
    rep.rule = ("seeded rules and schemas of 0..3 rules (spec-expressible conditions, paths of primitives and conditioned "
                "parts, str->bool / str->int casts); observed: to_json_like output, json.dumps/loads identity, "
                "from_json_like, == both ways, projections, validity / failures / cast data on 9 probe documents")
    rep.extra["events"] = len(events)


def replay(rep, case):
    r = case["case"]["recipe"]
    if r["op"] == "rt_rule":
        ev = [rtdrv.rt_rule_event(1, ruledrv.unlit_rule(r["rule"]))]
    else:
        ev = [rtdrv.rt_schema_event(1, [ruledrv.unlit_rule(x) for x in r["rules"]])]
    res = tlc.accept("Trace_RoundTrip", "Trace_RoundTrip.cfg", ev, shards=1)
    rep.add_tlc(res, "B:Trace_RoundTrip(replay)")
    rep.traces += 1
    for m in res["mismatches"]:
        print("REPLAY mismatch:", m["clause"], ev[0]["outcome"])
        rep.reject({"clause": m["clause"], "op": r["op"], "outcome": ev[0]["outcome"]}, {"recipe": r, "event": ev[0]})
    rep.sample({"replayed": r})
