"""C01 - a single condition filters every item to its documented meaning, never aborting.

Leg A: MC_Cond (mechanism = meaning on a TLA+-enumerated universe; negative cfg).
Leg B: exhaustive small universe + seeded random (leaf, document) pairs run through the real
       filter / Data.filter / test_all and the DSL constructors, judged by Trace_Cond."""
import random

from harness import gen, tlc
from harness.common import to_lit, from_lit
from harness.encode import enc_val, enc_cond, Unencodable
from harness.tracer import watch

NULL = {"t": "null"}
EMPTY = {"k": "none", "n": 0, "xs": []}


def blank(i):
    return {"id": i, "op": "", "entry": "", "cond": NULL, "doc": EMPTY, "outcome": "", "result": [], "data": [],
            "keys": [], "fidx": [], "fn": "", "datum": "", "pre": "", "actuals": [], "akw": [], "proj": NULL,
            "writes": [], "unchanged": True}


def outcome_of(f):
    try:
        return "ok", f()
    except RecursionError:
        return "raised:RecursionError", None
    except Exception as ex:  # noqa
        return "raised:" + type(ex).__name__, None


def build_event(i, rec):
    e = blank(i)
    e.update(op="build", fn=rec["fn"], datum=rec["datum"], pre=rec["pre"])
    e["actuals"] = [enc_val(a) for a in rec["actuals"]]
    e["akw"] = [{"name": k, "nc": [ord(c) for c in k], "v": enc_val(v)} for k, v in rec["akw"].items()]
    out, obj = outcome_of(lambda: gen.build_leaf(rec))
    e["outcome"] = out
    if obj is not None:
        e["proj"] = enc_cond(obj)
    return e, obj


def filter_events(i0, cond, cterm, doc, entries=("filter", "data_filter", "test_all")):
    import valida

    evs = []
    dterm = enc_val(doc)
    for entry in entries:
        e = blank(i0 + len(evs))
        e.update(cond=cterm, doc=dterm, entry=entry)
        with watch(objs=[cond], docs=[doc]) as w:
            if entry == "test":
                # ConditionLike.test(datum) == filter([datum]).result[0] for a value-kind condition;
                # KeyLike.test(single-item mapping) == filter(mapping).result[0]
                if cterm.get("datum") == "key":
                    datum = doc
                else:
                    datum = doc[0] if isinstance(doc, list) else next(iter(doc.values()))
                    e["doc"] = enc_val([datum])
                out, r = outcome_of(lambda: cond.test(datum))
                fd = None
            elif entry == "filter":
                out, fd = outcome_of(lambda: cond.filter(doc))
            elif entry == "filter_src":
                # the public source_data keyword: immaterial to a condition without data-path arguments
                out, fd = outcome_of(lambda: cond.filter(doc, source_data=doc))
            elif entry == "data_filter":
                out, fd = outcome_of(lambda: valida.Data(doc).filter(cond))
            else:
                out, fd = outcome_of(lambda: cond.test_all(doc))
        e["outcome"] = out
        e["writes"] = w.writes
        e["unchanged"] = bool(w.objs_unchanged and w.docs_unchanged)
        if entry == "test":
            e["op"] = "test_all"            # a one-item container: test(datum) is the conjunction over that item
            if out == "ok":
                e["result"] = [bool(r)]
        elif entry == "test_all":
            e["op"] = "test_all"
            if out == "ok":
                e["result"] = [bool(fd)]
        else:
            e["op"] = "filter"
            if out == "ok":
                e["result"] = [bool(b) for b in fd.result]
                e["data"] = [enc_val(v) for v in fd.data]
                e["keys"] = [enc_val(v) for v in fd.keys]
                e["fidx"] = [int(x) for x in fd.failure_indices]
        evs.append(e)
    return evs


def make_cases(tier, seed):
    """yield (leaf recipe, [documents])"""
    rng = random.Random(seed)
    cases = []
    leaves = gen.small_leaves()
    conts = gen.small_containers()
    if tier == "quick":
        # exhaustive over leaves; each leaf on a rotating third of the containers + 2 random docs
        for j, rec in enumerate(leaves):
            docs = [c for k, c in enumerate(conts) if (k + j) % 3 == 0]
            cases.append((rec, docs))
        nrand = 2500
    else:
        for rec in leaves:
            cases.append((rec, conts))
        nrand = 60000
    # the edges of the number universe (ints up to 2^31 - 1, floats up to 2^27): comparisons, approximate equality with
    # the default and with explicit tolerances, divisibility - never a range with huge bounds (see gen.INTS_HUGE)
    huge = gen.INTS_HUGE + [-x for x in gen.INTS_HUGE[:3]] + [16777216.5, 134217000.0, -134217000.125, 1000000.5, 0, 1, 2.0, 0.5]
    for _ in range(nrand // 12):
        fn = rng.choice(["equal_to", "not_equal_to", "less_than", "greater_than", "less_than_or_equal_to",
                         "greater_than_or_equal_to", "equal_to_approx", "equal_to_approx", "equal_to_approx", "factor_of",
                         "has_factor", "in_", "not_in", "in_range"])
        v = rng.choice(huge)
        if fn == "equal_to_approx":
            acts, akw = rng.choice([([v], {}), ([v, rng.choice([0.5, 1, 2, 0.125, 100])], {}),
                                    ([v], {"tolerance": rng.choice([1, 0.125, 1700000000, 0, -1])})])
        elif fn in ("in_", "not_in"):
            acts, akw = [[v, rng.choice(huge)]], {}
        elif fn == "in_range":
            acts, akw = [rng.randint(-3, 3), rng.randint(0, 9)], {}
        elif fn in ("factor_of", "has_factor"):
            acts, akw = [rng.choice([v, 2, 8, 0.5, 100, 17])], {}
        else:
            acts, akw = [v], {}
        rec = {"datum": "value", "pre": "none", "fn": fn, "actuals": acts, "akw": akw}
        near = [v, v + 1 if isinstance(v, int) and abs(v) < 2 ** 31 - 2 else v, -v, rng.choice(huge), rng.choice(huge),
                float(v) if isinstance(v, int) and abs(v) < 2 ** 27 else 3.0, "a", None]
        if fn == "in_range":
            near = [x for x in near if isinstance(x, int) or x is None or isinstance(x, str)] + [2, 2.0, 2.5]
        rng.shuffle(near)
        cases.append((rec, [near[:5], {"a": near[0], "b": near[1], 1: near[2]}]))
    for _ in range(nrand // 10):
        fn = rng.choice(gen.VARPOS_KEYS + ["keys_contain_at_least_one_of", "keys_contain_at_most_one_of"] + gen.N_OF)
        base = rng.sample(["a", "b", "c", 1, 2, "1", 0], rng.randint(1, 3))
        ks = list(base)
        for _k in range(rng.choice([1, 1, 2])):
            j = rng.randrange(len(ks))
            twin = {1: rng.choice([True, 1.0]), 0: rng.choice([False, 0.0]), 2: 2.0}.get(ks[j], ks[j]) if not isinstance(ks[j], bool) else ks[j]
            ks.insert(rng.randint(0, len(ks)), rng.choice([ks[j], twin]))       # a repeat, or its ==-twin of another type
        if rng.random() < 0.3:
            # a listed key that cannot be a mapping key (looking it up is undefined), before / between / after keys that
            # ARE present: whether the look-up is reached depends on the callable (all of them vs. the first hit)
            ks.insert(rng.randint(0, len(ks)), rng.choice([["x"], {"a": 1}, []]))
        if fn in gen.N_OF:
            acts = [rng.randint(0, len(ks)), ks]
        elif fn in ("keys_contain_at_least_one_of", "keys_contain_at_most_one_of"):
            acts = [ks]
        else:
            acts = ks
        rec = {"datum": "value", "pre": "none", "fn": fn, "actuals": acts, "akw": {}}
        exact = {k: 1 for k in base}
        more = dict(exact, zz=1)
        more2 = dict(more, yy=2)
        less = {k: 1 for k in base[1:]} or {"q": 1}
        cases.append((rec, [[exact, more, less, more2, {}], {"x": exact, "y": more2, "z": less}]))
    for _ in range(nrand):
        rec = gen.leaf_recipe(rng)
        docs = [gen.document(rng, depth=rng.choice([1, 2, 2, 3]), strish=0.6) for _ in range(2)]
        if rec["pre"] != "dtype" and rng.random() < 0.04:
            docs = [gen.subclassify(d) for d in docs]      # OrderedDict / list-subclass containers (and items)
        cases.append((rec, docs))
    return cases, len(leaves), len(conts)


def run(rep, tier, seed):
    # ---- leg A
    a = tlc.model_check("MC_Cond", "MC_Cond.cfg")
    rep.add_tlc(a, "A:MC_Cond")
    if not a["ok"]:
        raise tlc.MachineryError("leg A: MC_Cond violated on the shipped specification\n" + a["out"][-2000:])
    n = tlc.model_check("MC_Cond", "MC_Cond_ascoded.cfg")
    if n["ok"]:
        raise tlc.MachineryError("leg A: negative configuration MC_Cond_ascoded.cfg was not rejected (vacuous)")
    rep.negative_cfgs.append("MC_Cond_ascoded.cfg (AsCoded_CatchOnlyTypeErrors violates NeverAborts)")

    # ---- leg B
    cases, nleaves, nconts = make_cases(tier, seed)
    events, recipes = [], {}
    for rec, docs in cases:
        try:
            be, obj = build_event(len(events) + 1, rec)
        except Unencodable:
            rep.skipped_unencodable += 1
            continue
        events.append(be)
        recipes[be["id"]] = {"kind": "build", "leaf": to_lit(rec)}
        if obj is None:
            continue
        cterm = be["proj"]
        for doc in docs:
            if rec["datum"] == "key" and not isinstance(doc, dict) and random.Random(len(events)).random() < 0.8:
                continue          # keep a few refused calls, not thousands
            if rec["datum"] == "index" and not isinstance(doc, list) and random.Random(len(events)).random() < 0.8:
                continue
            try:
                ents = ("filter", "data_filter", "test_all", "filter_src")
                if len(doc) == 1 and cterm.get("t") == "leaf" and (rec["datum"] == "value" or (rec["datum"] == "key" and isinstance(doc, dict))):
                    ents = ents + ("test",)
                evs = filter_events(len(events) + 1, obj, cterm, doc, entries=ents)
            except Unencodable:
                rep.skipped_unencodable += 1
                continue
            for e in evs:
                events.append(e)
                recipes[e["id"]] = {"kind": "filter", "leaf": to_lit(rec), "doc": to_lit(doc), "entry": e["entry"],
                                    "sub": type(doc) not in (list, dict)}
                rep.note_case(repr((rec, doc, e["entry"])), nontrivial=e["outcome"] != "ok" or len(set(e["result"])) > 1
                              or e["op"] == "test_all")
    res = tlc.accept("Trace_Cond", "Trace_Cond.cfg", events)
    rep.add_tlc(res, "B:Trace_Cond")
    rep.traces += len(events)
    byid = {e["id"]: e for e in events}
    for m in res["mismatches"]:
        e = byid[m["id"]]
        r = recipes[m["id"]]
        leaf = from_lit(r["leaf"])
        key = {"clause": m["clause"], "op": e["op"], "fn": leaf["fn"], "outcome": e["outcome"]}
        rep.reject(key, {"recipe": r, "event": e})
    from harness import repotrace
    repotrace.judge(rep, "filter", "Trace_Cond", blank)
    for e in events[:400:133]:
        rep.sample({"op": e["op"], "src": recipes[e["id"]], "outcome": e["outcome"], "result": e["result"]})
    rep.rule = ("leg A: TLA+-enumerated leaf x item universe; leg B: every small leaf (class x callable x argument pool) "
                f"on small containers ({nleaves} leaves, {nconts} containers) plus seeded random (leaf, document) pairs, "
                "each through filter / Data.filter / test_all and the DSL constructor; non-trivial = call raised, or "
                "result has both True and False, or a test_all verdict; distinct by (leaf recipe, document, entry)")
    rep.exhaustive = False
    rep.extra["events"] = len(events)


def replay(rep, case):
    r = case["case"]["recipe"]
    rec = from_lit(r["leaf"])
    events = []
    be, obj = build_event(1, rec)
    events.append(be)
    if r["kind"] == "filter" and obj is not None:
        doc = from_lit(r["doc"])
        events += filter_events(2, obj, be["proj"], gen.subclassify(doc) if r.get("sub") else doc, entries=(r["entry"],))
    res = tlc.accept("Trace_Cond", "Trace_Cond.cfg", events, shards=1)
    rep.add_tlc(res, "B:Trace_Cond(replay)")
    rep.traces += len(events)
    byid = {e["id"]: e for e in events}
    for m in res["mismatches"]:
        e = byid[m["id"]]
        print("REPLAY mismatch:", m["clause"], e["op"], e["outcome"], e["result"])
        rep.reject({"clause": m["clause"], "op": e["op"], "fn": rec["fn"], "outcome": e["outcome"]},
                   {"recipe": r, "event": e})
    rep.sample({"replayed": r})
