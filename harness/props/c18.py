"""C18 - add_schema adds re-rooted rules and leaves the added schema intact.
Leg A: MC_AddSchema (rule objects immutable, only the target's rule list rebound, sorted, judgement of the new S = old S
       plus T re-rooted; negative: AliasRules).
Leg C: every history of add_schema calls of the instance replayed on real Schema / Rule objects: after every call the
       projection of every schema's rules, the write set (only S.rules), T's rule objects unchanged (structural
       snapshots with identity), and validate() of every schema on every document are compared with the model.
Leg B: seeded random histories over random schemas, judged on the real objects against fresh re-rooted copies."""
import random

from harness import gen, tlc, decode
from harness.common import to_lit
from harness.encode import enc_val, enc_rule, dec_val, Unencodable
from harness.tracer import watch, graph_snap, install
from harness.props.c01 import outcome_of
from harness.props import ruledrv


def rule_same(proj, term):
    """projection of a real rule == rule term of the model (stored forms coincide for decode-built rules)"""
    return proj["path"] == term["path"] and proj["cond"] == term["cond"] and proj["cast"] == [list(c) for c in term["cast"]]


def replay_history(pool, beh):
    import valida

    rules = [decode.real_rule(r) for r in pool["rules"]]
    schemas = [valida.Schema([rules[i - 1] for i in ids]) for ids in pool["schemas"]]
    roots = [decode.real_path(r) for r in pool["roots"]]
    docs = [dec_val(d) for d in pool["docs"]]
    for si, st in enumerate(beh["steps"], 1):
        S, T, R = schemas[st["s"] - 1], schemas[st["t"] - 1], roots[st["r"] - 1]
        t_rules = list(T.rules)
        t_snap = [graph_snap(r) for r in t_rules]
        others = [k for k in range(len(schemas)) if k != st["s"] - 1]
        other_snap = [graph_snap(schemas[k]) for k in others]
        old_s_rules = list(S.rules)
        import copy as _copy
        held = [(_copy.copy(x), list(x.rules)) for x in schemas]       # other holders of every schema as it is now
        with watch(objs=schemas + [R], docs=docs) as w:
            out, _ = outcome_of(lambda: S.add_schema(T, R))
        if any(len(h.rules) != len(rs) or any(a is not b for a, b in zip(h.rules, rs)) for h, rs in held):
            return ("OtherHoldersUnaffected", f"step {si}: a shallow copy taken before the call sees the added rules")
        if out != "ok":
            return ("AddSchemaSucceeds", f"step {si}: {out}")
        bad_writes = [x for x in w.writes if x != "Schema.rules"]
        if bad_writes:
            return ("OnlyTargetRuleListWritten", f"step {si}: wrote {bad_writes}")
        if [graph_snap(r) for r in t_rules] != t_snap or list(T.rules) != t_rules or any(a is not b for a, b in zip(T.rules, t_rules)):
            return ("AddedSchemaUnchanged", f"step {si}: a rule object of the added schema changed")
        if [graph_snap(schemas[k]) for k in others] != other_snap:
            return ("OtherSchemasUnchanged", f"step {si}")
        if any(r is t for r in S.rules for t in t_rules):
            return ("RulesAreReRootedCopies", f"step {si}: the target shares a rule object with the added schema")
        if not all(any(r is o for r in S.rules) for o in old_s_rules):
            return ("PreviousRulesKept", f"step {si}")
        for k, sch in enumerate(schemas):
            view = st["view"][k]
            projs = [enc_rule(r) for r in sch.rules]
            if len(projs) != len(view["rules"]) or not all(rule_same(p, t) for p, t in zip(projs, view["rules"])):
                return ("SchemaIsOldPlusReRooted", f"step {si}: schema {k + 1} has rules {projs}, expected {view['rules']}")
            for di, d in enumerate(docs):
                exp = view["val"][di]
                if exp["u"]:
                    continue
                out, vd = outcome_of(lambda: sch.validate(d))
                if out != "ok":
                    return ("ValidateSucceeds", f"step {si}: schema {k + 1} doc {di + 1}: {out}")
                got = (bool(vd.is_valid), int(vd.num_failures), int(vd.num_rules_tested), enc_val(vd.cast_data))
                if got != (exp["valid"], exp["nfail"], exp["ntested"], exp["cast_data"]):
                    return ("JudgementIsOldPlusReRooted", f"step {si}: schema {k + 1} doc {di + 1}: {got[:3]} expected "
                            f"{(exp['valid'], exp['nfail'], exp['ntested'])}")
    return None


def random_history(rng, events=None, recipes=None):
    """leg B: random schemas, random add_schema history; compare with fresh re-rooted copies built through the API; the
    judgement of the assembled schema is ALSO recorded as a validate event (rules = the re-rooted recipes in stable
    path-length order) to be judged by the specification (Trace_Rule), not only against the library itself"""
    import valida
    import valida.datapath as dp

    doc = gen.document(rng, depth=3, strish=0.8)
    slash_key = None
    if isinstance(doc, dict) and rng.random() < 0.15:
        # a key that contains the path-string delimiter (a MIME type, a file name): as a root it is ONE key
        slash_key = rng.choice(["text/plain", "a/b", "/", "a/", "x/y/z"])
        doc = dict(doc)
        doc[slash_key] = gen.value(rng, 2)
        gen._note_document(doc)
    nS = rng.choice([2, 3, 4])
    recs = [[ruledrv.rule_recipe(rng, doc, cast_p=0.2, maxlen=2) for _ in range(rng.choice([0, 1, 2]))] for _ in range(nS)]
    schemas = [valida.Schema([ruledrv.build_rule(r) for r in rs]) for rs in recs]
    expect = [list(rs) for rs in recs]                      # expected rule recipes per schema (given order)
    for step in range(rng.choice([1, 2, 3, 4, 6, 8])):
        s, t = rng.sample(range(nS), 2)
        root = gen.path_recipe(rng, doc, maxlen=2, p_prim=0.8)
        if slash_key is not None and rng.random() < 0.6:
            root = [("prim", slash_key)]
        R = dp.DataPath(*[gen.build_part(p) for p in root])
        if len(root) == 1 and isinstance(root[0], tuple) and isinstance(root[0][1], str) and rng.random() < 0.5:
            R = root[0][1]               # the root given as a plain key (`key / path` is a path)
        t_rules = list(schemas[t].rules)
        t_snap = [graph_snap(r) for r in t_rules]
        import copy as _copy
        held = [(_copy.copy(x), list(x.rules)) for x in schemas]
        with watch(objs=schemas + [R], docs=[doc]) as w:
            out, _ = outcome_of(lambda: schemas[s].add_schema(schemas[t], R))
        if any(len(h.rules) != len(rs) or any(a is not b for a, b in zip(h.rules, rs)) for h, rs in held):
            return ("OtherHoldersUnaffected", "a shallow copy taken before the call sees the added rules", doc)
        if out != "ok":
            return ("AddSchemaSucceeds", out, doc)
        if [x for x in w.writes if x != "Schema.rules"]:
            return ("OnlyTargetRuleListWritten", str(w.writes), doc)
        if [graph_snap(r) for r in t_rules] != t_snap:
            return ("AddedSchemaUnchanged", f"step {step}", doc)
        # expectation: T's rules as they are NOW (re-rooted), appended to S
        expect[s] = expect[s] + [dict(r, rparts=list(root) + list(r["rparts"])) for r in expect[t]]
        fresh = valida.Schema([ruledrv.build_rule(r) for r in expect[s]])
        if len(fresh.rules) != len(schemas[s].rules):
            return ("SchemaIsOldPlusReRooted", f"{len(schemas[s].rules)} rules, expected {len(fresh.rules)}", doc)
        for probe in [doc] + [gen.document(rng, depth=3, strish=0.8) for _ in range(2)]:
            a = outcome_of(lambda: _sig(schemas[s].validate(probe)))
            b = outcome_of(lambda: _sig(fresh.validate(probe)))
            if a != b:
                return ("JudgementIsOldPlusReRooted", f"{a} vs fresh {b}", doc)
        if events is not None and expect[s]:
            order = sorted(range(len(expect[s])), key=lambda j: len(expect[s][j]["rparts"]))      # stable, as Schema sorts
            rrs = [expect[s][j] for j in order]
            try:
                e = ruledrv.validate_event(len(events) + 1, rrs, doc,
                                           shared={"rules": list(schemas[s].rules), "schema": schemas[s]})
                events.append(e)
                recipes[e["id"]] = {"op": "validate", "rules": [ruledrv.lit_rule(r) for r in rrs], "doc": to_lit(doc),
                                    "note": "schema assembled by a random add_schema history"}
            except (Unencodable, TypeError, ValueError):
                pass
    return None


def _sig(vd):
    return (bool(vd.is_valid), int(vd.num_failures), int(vd.num_rules_tested),
            sorted(repr((enc_val(f.value), enc_val(tuple(f.path)))) for t in vd.rule_tests for f in t.failures),
            enc_val(vd.cast_data))


def run(rep, tier, seed):
    install()
    a = tlc.model_check("AddSchema", "MC_AddSchema_2.cfg" if tier == "quick" else "MC_AddSchema.cfg", timeout=3000)
    rep.add_tlc(a, "A:MC_AddSchema")
    if not a["ok"]:
        raise tlc.MachineryError("leg A: MC_AddSchema violated on the shipped specification\n" + a["out"][-2500:])
    n = tlc.model_check("AddSchema", "MC_AddSchema_ascoded.cfg")
    if n["ok"]:
        raise tlc.MachineryError("leg A: negative configuration MC_AddSchema_ascoded.cfg was not rejected")
    rep.negative_cfgs.append("MC_AddSchema_ascoded.cfg (add_schema rebinds the path of T's own rules and shares them)")
    g = tlc.generate("Gen_AddSchema", "Gen_AddSchema.cfg" if tier == "quick" else "Gen_AddSchema_3.cfg", timeout=3000, heap="6g")
    rep.add_tlc(g, "C:Gen_AddSchema")
    pools = [b for b in g["behaviours"] if b.get("kind") == "pool"]
    behs = [b for b in g["behaviours"] if b.get("kind") == "behaviour"]
    if not pools or not behs:
        raise tlc.MachineryError("Gen_AddSchema printed nothing")
    if tier != "quick" and len(behs) > 6000:
        behs = random.Random(seed).sample(behs, 6000)
    for b in behs:
        bad = replay_history(pools[0], b)
        if bad:
            rep.reject({"clause": bad[0], "leg": "C"}, {"kind": "history", "pool": pools[0], "behaviour": b, "detail": bad[1]})
        rep.note_case(repr([(s["s"], s["t"], s["r"]) for s in b["steps"]]))
    rep.traces += len(behs)
    rep.sample({"history": [(s["s"], s["t"], s["r"]) for s in behs[0]["steps"]]})
    rng = random.Random(seed + 18)
    nb = 300 if tier == "quick" else 10000
    events, recipes = [], {}
    for k in range(nb):
        try:
            bad = random_history(rng, events, recipes)
        except (Unencodable, TypeError, ValueError):
            continue
        if bad:
            rep.reject({"clause": bad[0], "leg": "B"}, {"kind": "random", "detail": bad[1], "doc": to_lit(bad[2]), "index": k})
        rep.note_case("rand%d" % k)
    rep.traces += nb
    ruledrv.judge(rep, events, recipes, lambda m, e: {"clause": m["clause"], "leg": "B", "op": e["op"], "outcome": e["outcome"]})
    rep.extra["spec_judged_validations"] = len(events)
    rep.rule = (f"leg C: all {len(behs)} histories of add_schema calls over 4 schemas (one with the empty-path rule and a cast "
                "rule, one with a fan-out path) x 3 roots (a key, a two-part path, a fan-out part) x 6 documents, replayed on "
                "real objects; leg B: seeded random histories of <= 8 additions over <= 4 random schemas compared with fresh "
                "schemas built from re-rooted copies, and judged by the specification (Trace_Rule) after every addition")
    rep.exhaustive = True


def replay(rep, case):
    c = case["case"]
    if "recipe" in c:                     # a spec-judged validation of leg B: the schema is rebuilt from its rule recipes
        return ruledrv.replay(rep, case)
    if c.get("kind") == "history":
        bad = replay_history(c["pool"], c["behaviour"])
        if bad:
            print("REPLAY mismatch:", bad)
            rep.reject({"clause": bad[0], "leg": "C"}, c)
        rep.sample({"replayed": [(s["s"], s["t"], s["r"]) for s in c["behaviour"]["steps"]]})
    else:
        print("random history", c.get("index"), c.get("detail"), "- re-run the check with the same seed to reproduce")
        rep.reject({"clause": "recorded", "leg": "B"}, c)
        rep.sample({"recorded": c.get("detail")})
    rep.traces += 1
    rep.states += 1
    rep.transitions += 1
