"""Behaviour beyond the listed properties (DESIGN.md sections 10 / 11.4): path algebra, simplify, Data.set,
validate_rule_paths, kind predicates - recorded from the real valida and judged by TLC against spec/Ext.tla.
Not a registered check (it belongs to no listed property): `make extras`.  Exit 0 / 1 / 2 as the checks."""
import os
import random
import sys

HERE = os.path.dirname(os.path.abspath(__file__))
sys.path.insert(0, os.path.dirname(HERE))
sys.dont_write_bytecode = True

from harness import common, tlc, gen  # noqa: E402
from harness.encode import enc_val, enc_path, enc_part, Unencodable, V  # noqa: E402
from harness.recipes import enc_tree  # noqa: E402
from harness.tracer import doc_snap  # noqa: E402

NULLPATH = {"parts": [], "concrete": True, "dt": "none", "mt": "none"}
NULLPART = {"pk": "none", "cond": {"t": "null"}, "lcond": {"t": "null"}, "mcond": {"t": "null"}, "label": V("none")}


def outcome_of(f):
    try:
        return "ok", f()
    except Exception as ex:  # noqa
        return "raised:" + type(ex).__name__, None


def blank(i, op):
    return {"id": i, "op": op, "outcome": "", "p": NULLPATH, "q": NULLPATH, "result": NULLPATH, "len": 0, "a": 0, "b": 0,
            "simp": [], "rebuilt": NULLPATH, "rebuilt_eq": True, "doc": V("none"), "keys": [], "datum": V("none"),
            "concrete": True, "unchanged": True, "paths": [], "predicted": [], "rcond": {"t": "null"}, "is_value": False,
            "is_key": False, "is_index": False, "nleaves": 0, "nops": 0, "table": [], "reasons": [],
            "iter": [], "items": [], "is_list": False, "eq_copy": True, "eq_other": False, "rcond2": {"t": "null"}, "bop": "and",
            "res": [], "data": [], "ppe": [], "ce": [], "cf": [], "same_as_cond": True, "other_source": "",
            "item_fail_ok": True, "cond_res": []}


def build_path(rparts):
    import valida.datapath as dp

    return dp.DataPath(*[gen.build_part(p) for p in rparts])


def make_events(rng, n):
    import valida
    import valida.datapath as dp

    evs = []
    for _ in range(n):
        doc = gen.document(rng, depth=3, strish=0.7)
        k = rng.randrange(12)
        e = None
        try:
            if k == 0:
                e = blank(len(evs) + 1, "concat")
                p, q = build_path(gen.path_recipe(rng, doc, maxlen=3)), build_path(gen.path_recipe(rng, doc, maxlen=2))
                if rng.random() < 0.3:
                    q = build_path([])                      # joined with the empty path
                from harness.props.pathdrv import apply_mods
                if rng.random() < 0.5:                      # modifiers of either operand do not survive the join
                    p = apply_mods(p, rng.choice(["none", "length", "dtype", "map_keys"]),
                                   "none" if p.is_concrete else rng.choice(["none", "first", "last", "all"]), "dm")
                if rng.random() < 0.3 and len(q):
                    q = apply_mods(q, rng.choice(["none", "length"]), "none" if q.is_concrete else rng.choice(["none", "first"]), "dm")
                e["p"], e["q"] = enc_path(p), enc_path(q)
                out, r = outcome_of(lambda: p / q)
                e["outcome"] = out
                if r is not None:
                    e["result"], e["len"] = enc_path(r), len(r)
            elif k == 1:
                e = blank(len(evs) + 1, "slice")
                p = build_path(gen.path_recipe(rng, doc, maxlen=4))
                e["p"] = enc_path(p)
                e["a"], e["b"] = rng.randint(-2, 4), rng.randint(-2, 5)
                out, r = outcome_of(lambda: p[e["a"]:e["b"]])
                e["outcome"] = out
                if r is not None:
                    e["result"] = enc_path(r)
            elif k == 2:
                e = blank(len(evs) + 1, "simplify")
                p = build_path(gen.path_recipe(rng, doc, maxlen=3))
                e["p"] = enc_path(p)
                out, s = outcome_of(lambda: p.simplify())
                e["outcome"] = out
                if s is not None:
                    e["simp"] = [{"prim": not isinstance(x, dp.ContainerValue),
                                  "v": enc_val(x) if not isinstance(x, dp.ContainerValue) else V("none"),
                                  "part": enc_part(x) if isinstance(x, dp.ContainerValue) else NULLPART} for x in s]
                    out2, rb = outcome_of(lambda: dp.DataPath(*s))
                    if rb is not None:
                        e["rebuilt"] = enc_path(rb)
                        e["rebuilt_eq"] = bool(rb == p) or (rb.is_concrete != p.is_concrete)
                    else:
                        e["rebuilt_eq"] = False
            elif k == 3:
                e = blank(len(evs) + 1, "set")
                rp = gen.path_recipe(rng, doc, maxlen=3, p_prim=0.9)
                p = build_path(rp)
                e["concrete"] = bool(p.is_concrete)
                e["doc"] = enc_val(doc)
                e["keys"] = [enc_val(x[1]) for x in rp] if p.is_concrete else []
                datum = gen.value(rng, 1)
                e["datum"] = enc_val(datum)
                before = doc_snap(doc)
                out, r = outcome_of(lambda: valida.Data(doc).set(p, datum))
                e["outcome"] = out
                e["unchanged"] = doc_snap(doc) == before
                if r is not None:
                    e["result"] = enc_val(r.get_original())
                else:
                    e["result"] = V("none")
            elif k == 4:
                e = blank(len(evs) + 1, "rule_paths")
                paths = [build_path(gen.path_recipe(rng, doc, maxlen=3, p_prim=0.5)) for _ in range(rng.randint(1, 4))]
                if rng.random() < 0.2 and paths:
                    paths.append(build_path([]) / paths[0] if rng.random() < 0.5 else paths[0][0:len(paths[0])])
                e["paths"] = [enc_path(p) for p in paths]
                out, pred = outcome_of(lambda: dp.validate_rule_paths([{"path": p} for p in paths]))
                e["outcome"] = out
                if pred is not None:
                    for r, p in enumerate(paths, 1):
                        for kk in range(len(p)):
                            t = pred[f"{p[0:kk]!r}"]
                            e["predicted"].append({"r": r, "k": kk, "type": t.name})
            elif k == 8:
                e = blank(len(evs) + 1, "data_api")
                d = rng.choice([doc, doc, doc, gen.value(rng, 2), [], {}, "ab", 3, None])
                e["doc"] = enc_val(d)
                out, D = outcome_of(lambda: valida.Data(d))
                e["outcome"] = out
                if D is not None:
                    import copy
                    e["len"] = len(D)
                    e["iter"] = [enc_val(x) for x in D]
                    e["items"] = [enc_val(D[j]) for j in range(len(D))]
                    e["is_list"] = bool(D.is_list)
                    e["result"] = enc_val(D.get_original())
                    other = copy.deepcopy(d)
                    if isinstance(other, list):
                        other.append(0)
                    else:
                        other["zz"] = 0
                    e["eq_copy"] = bool(D == valida.Data(copy.deepcopy(d))) and bool(D.original == d)
                    e["eq_other"] = bool(D == valida.Data(other))
            elif k in (9, 10):
                e = blank(len(evs) + 1, "fd_algebra")
                kinds = gen.VALUE_KINDS if isinstance(doc, list) or rng.random() < 0.6 else gen.VALUE_KINDS + gen.KEY_KINDS
                t1 = gen.tree_recipe(rng, depth=rng.randint(0, 2), kinds=kinds, null_p=0.08)
                t2 = gen.tree_recipe(rng, depth=rng.randint(0, 2), kinds=kinds, null_p=0.08)
                e["rcond"], e["rcond2"], e["doc"] = enc_tree(t1), enc_tree(t2), enc_val(doc)
                e["bop"] = rng.choice(["and", "or", "xor"])
                o1, c1 = outcome_of(lambda: gen.build_tree(t1))
                o2, c2 = outcome_of(lambda: gen.build_tree(t2))
                if c1 is None or c2 is None:
                    continue
                D = valida.Data(doc)
                import operator
                pyop = {"and": operator.and_, "or": operator.or_, "xor": operator.xor}[e["bop"]]
                out, fd = outcome_of(lambda: pyop(c1.filter(D), c2.filter(D)))
                e["outcome"] = out
                if fd is not None:
                    e["res"] = [bool(x) for x in fd.result]
                    e["data"] = [enc_val(x) for x in fd.data]
                    e["keys"] = [enc_val(x) for x in fd.keys]
                    e["ppe"] = [bool(x) for x in fd.pre_processor_error]
                    e["ce"] = [bool(x) for x in fd.callable_error]
                    e["cf"] = [bool(x) for x in fd.callable_false]
                    kindsm = {"Condition pre-processor raised": "pre", "Condition callable raised": "err",
                              "Condition callable returned False": "false"}
                    e["reasons"] = [[next(v for kk, v in kindsm.items() if m.startswith(kk)) for m in f]
                                    for f in fd.get_all_failures()]
                    o3, both = outcome_of(lambda: pyop(c1, c2).filter(D))
                    if both is None:
                        continue
                    e["cond_res"] = [bool(x) for x in both.result]
                    e["same_as_cond"] = both is not None and list(both.result) == list(fd.result) and \
                        both.data == fd.data and both.keys == fd.keys
                    e["other_source"] = outcome_of(lambda: pyop(c1.filter(D), c2.filter(valida.Data(doc))))[0]
            elif k == 11:
                e = blank(len(evs) + 1, "filter_paths")
                t = gen.tree_recipe(rng, depth=rng.randint(0, 2), kinds=gen.VALUE_KINDS, null_p=0.05)
                vals = [gen.value(rng, 1) for _ in range(rng.randint(1, 4))]
                paths = [tuple(rng.choice(["a", "b", 0, 1, 2]) for _ in range(rng.randint(0, 3))) for _ in vals]
                e["rcond"], e["doc"] = enc_tree(t), enc_val(vals)
                e["paths"] = [enc_val(p) for p in paths]
                out, c = outcome_of(lambda: gen.build_tree(t))
                if c is None:
                    continue
                out, fd = outcome_of(lambda: c.filter(list(zip(vals, paths)), data_has_paths=True))
                e["outcome"] = out
                if fd is not None:
                    e["res"] = [bool(x) for x in fd.result]
                    e["data"] = [enc_val(x) for x in fd.data]
                    items = list(fd)
                    e["items"] = [{"source": enc_val(it.source), "result": bool(it.result), "path": enc_val(it.concrete_path)}
                                  for it in items]
                    e["item_fail_ok"] = all(it.get_failure() == fd.get_failure_by_index(j) and
                                            fd[j].concrete_path == it.concrete_path for j, it in enumerate(items))
            elif k in (6, 7):
                e = blank(len(evs) + 1, "reasons")
                t = gen.tree_recipe(rng, depth=rng.randint(0, 3), kinds=gen.VALUE_KINDS, null_p=0.05)
                d = [gen.value(rng, 1) for _ in range(rng.randint(1, 4))]
                e["rcond"] = enc_tree(t)
                e["doc"] = enc_val(d)
                out, c = outcome_of(lambda: gen.build_tree(t))
                if c is None:
                    continue
                out, fd = outcome_of(lambda: c.filter(d))
                e["outcome"] = out
                if fd is not None:
                    tt = fd.truth_table
                    e["table"] = [[bool(row[1][j]) for row in tt] for j in range(len(d))]
                    kinds = {"Condition pre-processor raised": "pre", "Condition callable raised": "err",
                             "Condition callable returned False": "false"}
                    rs = []
                    for j in range(len(d)):
                        f = fd.get_failure_by_index(j)
                        rs.append([] if f is None else [next(v for kk, v in kinds.items() if m.startswith(kk)) for m in f])
                    e["reasons"] = rs
            else:
                e = blank(len(evs) + 1, "kinds")
                t = gen.tree_recipe(rng, depth=rng.randint(0, 3), kinds=rng.choice([gen.VALUE_KINDS, gen.KEY_KINDS + gen.VALUE_KINDS,
                                                                              gen.INDEX_KINDS + gen.VALUE_KINDS]), null_p=0.1)
                e["rcond"] = enc_tree(t)
                out, c = outcome_of(lambda: gen.build_tree(t))
                e["outcome"] = out
                if c is not None:
                    e["is_value"], e["is_key"], e["is_index"] = bool(c.is_value_like), bool(c.is_key_like), bool(c.is_index_like)
                    fl = c.flatten()
                    e["nleaves"], e["nops"] = len(fl[0]), len(fl[1])
                else:
                    continue
        except (Unencodable, TypeError, ValueError):
            continue
        if e is not None:
            evs.append(e)
    for j, e in enumerate(evs, 1):
        e["id"] = j
    return evs


def tree_type_lists(seed):
    """the type / key-type lists of documentation-tree nodes (no listed property names them): every always-applicable
    type-like leaf of a node's rule is listed, once per occurrence (Tree.tla TypeEntries; Trace_Tree judged with
    VERIF_PROP=EXTRA)"""
    from harness.props import c20
    rng = random.Random(seed + 20)
    events = []
    for _ in range(600):
        try:
            schema = c20.make_schema(rng)
            e, _nested = c20.tree_event(len(events) + 1, schema, 0)
            events.append(e)
        except Unencodable:
            pass
    res = tlc.accept("Trace_Tree", "Trace_Tree.cfg", events, env={"VERIF_PROP": "EXTRA"})
    for m in res["mismatches"][:3]:
        print("EXTRA-MISMATCH", ("tree", m["clause"]), str(events[m["id"] - 1]["nodes"])[:300])
    print(f"[extras] tree type lists: events={len(events)} mismatches={len(res['mismatches'])}")
    return len(res["mismatches"])


def main():
    seed = int(os.environ.get("VERIF_SEED", "20261003"))
    n = int(sys.argv[1]) if len(sys.argv) > 1 else 4000
    common.bind_source()
    evs = make_events(random.Random(seed + 99), n)
    try:
        res = tlc.accept("Trace_Ext", "Trace_Ext.cfg", evs)
    except tlc.MachineryError as ex:
        print("MACHINERY-FAILURE extras:", ex, file=sys.stderr)
        return 2
    byid = {e["id"]: e for e in evs}
    # observations outside the listed properties, recorded in DESIGN.md 11.4 (not repaired: no listed property covers them)
    known = {("set", "SetLeavesTheOriginal"): "Data.set copies only the top level: nested containers of the caller's document are modified",
             ("simplify", "SimplifyRoundTrip"): "simplify() turns MapOrListValue(key=k, index=i) with k != i (and MapValue(key=<int>)) into a primitive that rebuilds a different part"}
    counts, new = {}, 0
    for m in res["mismatches"]:
        e = byid[m["id"]]
        k = (e["op"], m["clause"])
        counts[k] = counts.get(k, 0) + 1
        if k not in known:
            new += 1
            if counts[k] == 1:
                print("EXTRA-MISMATCH", k, e["outcome"], str({x: e[x] for x in ("a", "b", "keys") if e.get(x)})[:300])
    for k, n in counts.items():
        if k in known:
            print(f"EXTRA-OBSERVATION {k[0]}/{k[1]}: {known[k]} [{n} case(s)]")
    print(f"[extras] events={len(evs)} mismatches={len(res['mismatches'])} new={new} states={res['distinct']}")
    new += tree_type_lists(seed)
    return 1 if new else 0


if __name__ == "__main__":
    sys.exit(main())
