"""Generator recipes -> the recipe terms of spec/Build.tla."""
from harness.encode import enc_val, V

NONE = {"t": "none"}


def enc_tree(t):
    """recipe tree -> un-normalised recipe term (the specification applies Store and the null short-circuit)"""
    if t[0] == "null":
        return {"t": "null"}
    if t[0] == "leaf":
        rec = t[1]
        return {"t": "rleaf", "fn": rec["fn"], "datum": rec["datum"], "pre": rec["pre"],
                "actuals": [enc_val(a) for a in rec["actuals"]],
                "akw": [{"name": k, "nc": [ord(ch) for ch in k], "v": enc_val(v)} for k, v in rec["akw"].items()]}
    return {"t": t[0], "l": enc_tree(t[1]), "r": enc_tree(t[2])}


def enc_arg(x):
    if x is None:
        return NONE
    if x[0] == "prim":
        return {"t": "prim", "v": enc_val(x[1])}
    return enc_tree(x)


def enc_rpart(p):
    if isinstance(p, tuple) and p[0] == "prim":
        return {"rk": "prim", "v": enc_val(p[1]), "key": NONE, "index": NONE, "value": NONE, "cond": NONE,
                "lcond": NONE, "mcond": NONE, "label": V("none")}
    return {"rk": p["rk"], "v": V("none"), "key": enc_arg(p["key"]), "index": enc_arg(p["index"]),
            "value": enc_arg(p["value"]), "cond": enc_arg(p["cond"]),
            "lcond": enc_arg(p.get("lcond") if p["rk"] == "mol" else None), "mcond": enc_arg(p.get("mcond") if p["rk"] == "mol" else None),
            "label": V("none") if p["label"] is None else enc_val(p["label"])}
